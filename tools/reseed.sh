#!/bin/bash
# Re-evaluate every kept seed (seeded/<name>/) and the wave-3 candidates against the current checks (quick tier only).
cd /verif
for d in seeded/*/; do
  name=$(basename $d); pid=$(python3 -c "import json;print(json.load(open('$d/meta.json'))['property'])")
  extra=""
  echo "=== $name"
  VERIF_NO_THOROUGH=1 timeout 2400 python3 tools/seedeval.py $d $pid $name $extra 2>&1 | grep -E "verdict" | cut -c1-200
done
for id in C01 C02 C03 C04 C05 C06 C07 C08 C09 C10 C11 C12 C13 C14 C15 C16 C17 C18 C19 C20; do
  extra=""
  [ $id = C13 ] && extra="--checks=C13,C14"
  [ $id = C15 ] && extra="--checks=C15,C11"
  echo "=== ${id}c"
  VERIF_NO_THOROUGH=1 timeout 2400 python3 tools/seedeval.py /tmp/seedout3/$id $id ${id}c $extra 2>&1 | grep -E "verdict" | cut -c1-200
done
