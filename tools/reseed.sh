#!/bin/bash
# Re-evaluate every kept seed (seeded/<name>/) against the current checks (quick tier only).
# Seeds whose defect is the subject of another property's statement are run against that check too.
cd /verif
declare -A EXTRA=( [C13c]="C13,C14" [C15c]="C15,C11" [C06d]="C06,C03" [C14d]="C14,C02" [C05k]="C05,C19" [C05l]="C05,C19" [C02l]="C02,C12" [C09l]="C09,C04" )
for d in seeded/*/; do
  name=$(basename $d); pid=$(python3 -c "import json;print(json.load(open('$d/meta.json'))['property'])")
  extra=""; [ -n "${EXTRA[$name]}" ] && extra="--checks=${EXTRA[$name]}"
  echo "=== $name $(VERIF_NO_THOROUGH=1 timeout 2400 python3 tools/seedeval.py $d $pid $name $extra 2>&1 | grep -E 'verdict' | cut -c1-120)"
done
