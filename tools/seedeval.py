#!/usr/bin/env python3
"""Evaluate one seeded change:  tools/seedeval.py <SEED_DIR> <PROPERTY_ID> [<name>] [--checks C01,C02]

SEED_DIR holds patch.diff, demo.py (+ notes.md) written by an independent sub-agent.  Steps:
  1. fresh scratch worktree of /repo HEAD (outside /repo and /verif): demo must PASS on it
  2. apply the patch there: the repository's 52 tests must still pass, demo must FAIL
  3. apply the patch to /repo, run the property's check (quick, then thorough if quick is silent), revert
  4. copy patch/demo/notes + meta.json into /verif/seeded/<name>/
The scratch worktree is removed at the end.
"""
import json
import os
import shutil
import subprocess
import sys
import time

REPO = '/repo'
VERIF = '/verif'
PY = '/venv/bin/python'


def sh(cmd, cwd=None, env=None, timeout=3600):
  e = dict(os.environ)
  if env:
    e.update(env)
  p = subprocess.run(cmd, shell=True, cwd=cwd, env=e, stdout=subprocess.PIPE, stderr=subprocess.STDOUT, timeout=timeout)
  return p.returncode, p.stdout.decode('utf-8', 'replace')


def main():
  args = [a for a in sys.argv[1:] if not a.startswith('--')]
  seed_dir, pid = os.path.abspath(args[0]), args[1]
  name = args[2] if len(args) > 2 else pid
  checks = [pid]
  for a in sys.argv[1:]:
    if a.startswith('--checks='):
      checks = a.split('=', 1)[1].split(',')
  patch = os.path.join(seed_dir, 'patch.diff')
  demo = os.path.join(seed_dir, 'demo.py')
  meta = {'property': pid, 'name': name, 'evaluated_at': time.strftime('%Y-%m-%d %H:%M:%S'), 'ran': []}
  rc, out = sh('git -C %s status --porcelain' % REPO)
  if out.strip():
    print('/repo is dirty; refusing')
    return 2
  wt = '/tmp/ev_%s_%d' % (name, os.getpid())
  sh('git -C %s worktree add -q --detach %s HEAD' % (REPO, wt))
  try:
    env = {'PYTHONPATH': wt}
    rc, out = sh('%s %s' % (PY, demo), cwd=wt, env=env, timeout=600)
    meta['demo_on_clean_tree'] = {'exit': rc, 'tail': out[-300:]}
    meta['ran'].append('demo.py on a clean worktree -> exit %d' % rc)
    rc2, out2 = sh('git apply %s' % os.path.abspath(patch), cwd=wt)
    meta['patch_applies'] = rc2 == 0
    if rc2 != 0:
      meta['verdict'] = 'rejected: patch does not apply: ' + out2[-200:]
      print(json.dumps(meta, indent=1))
      return 1
    rc3, out3 = sh('%s -m pytest -q -p no:cacheprovider test/scales' % PY, cwd=wt, env=env, timeout=1200)
    meta['tests_with_patch'] = out3.strip().splitlines()[-1] if out3.strip() else ''
    meta['ran'].append('pytest test/scales with the patch -> %s' % meta['tests_with_patch'])
    tests_ok = rc3 == 0 and '52 passed' in out3
    rc4, out4 = sh('%s %s' % (PY, demo), cwd=wt, env=env, timeout=600)
    meta['demo_on_changed_tree'] = {'exit': rc4, 'tail': out4[-400:]}
    meta['ran'].append('demo.py with the patch -> exit %d' % rc4)
    valid = tests_ok and meta['demo_on_clean_tree']['exit'] == 0 and rc4 != 0
    meta['valid_seed'] = valid
  finally:
    sh('git -C %s worktree remove --force %s' % (REPO, wt))
    shutil.rmtree(wt, ignore_errors=True)
  results = {}
  if meta.get('valid_seed'):
    sh('git -C %s apply %s' % (REPO, os.path.abspath(patch)))
    try:
      for c in checks:
        for tier in (('quick',) if os.environ.get('VERIF_NO_THOROUGH') else ('quick', 'thorough')):
          t0 = time.time()
          rc, out = sh('./check %s --tier %s' % (c, tier), cwd=VERIF, timeout=7200)
          lines = [l for l in out.splitlines() if 'VIOLATION' in l or 'clause=' in l or 'OK property' in l or 'HARNESS' in l or 'KNOWN-FINDING' in l]
          results['%s/%s' % (c, tier)] = {'exit': rc, 'wall_s': round(time.time() - t0, 1), 'lines': lines[:6]}
          meta['ran'].append('./check %s --tier %s with the patch applied to /repo -> exit %d' % (c, tier, rc))
          if rc != 0:
            break
    finally:
      sh('git -C %s checkout -- .' % REPO)
      sh('find %s/replays -name "*.json" -delete' % VERIF)
    meta['check_results'] = results
    caught = [k for k, v in results.items() if v['exit'] == 1]
    broken = [k for k, v in results.items() if v['exit'] not in (0, 1)]
    meta['caught_by'] = caught
    meta['verdict'] = ('caught by ' + ', '.join(caught)) if caught else ('HARNESS ERROR in ' + ', '.join(broken) if broken else 'MISSED')
  else:
    meta['verdict'] = 'rejected: not a valid seed (tests/demos did not behave as required)'
  dest = os.path.join(VERIF, 'seeded', name)
  if meta.get('valid_seed'):
    os.makedirs(dest, exist_ok=True)
    if os.path.abspath(dest) != seed_dir:
      shutil.copy(patch, os.path.join(dest, 'patch.diff'))
      shutil.copy(demo, os.path.join(dest, 'demo.py'))
      if os.path.exists(os.path.join(seed_dir, 'notes.md')):
        shutil.copy(os.path.join(seed_dir, 'notes.md'), os.path.join(dest, 'notes.md'))
    if os.path.exists(os.path.join(seed_dir, 'notes.md')):
      meta['needs_to_manifest'] = open(os.path.join(seed_dir, 'notes.md')).read()[:1500]
    with open(os.path.join(dest, 'meta.json'), 'w') as f:
      json.dump(meta, f, indent=1)
  print(json.dumps({k: meta[k] for k in ('property', 'name', 'valid_seed', 'verdict') if k in meta}, indent=1))
  for k, v in results.items():
    print(k, v['exit'], v['wall_s'], v['lines'][:3])
  if not meta.get('valid_seed'):
    print(json.dumps(meta, indent=1)[:2000])
  return 0


if __name__ == '__main__':
  sys.exit(main())
