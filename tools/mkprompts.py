#!/usr/bin/env python3
"""Write the prompts for one wave of independent seeded changes:  tools/mkprompts.py <wave letter> <out dir>

Each prompt contains only the text of one property, the one-line summaries of the changes earlier waves made for it
(so that the new one differs), and the working rules.  Nothing from /verif's checks is given to the sub-agents."""
import glob
import json
import os
import sys

HINT = {
  'm': ("look for what it is least likely to exercise while still being squarely inside the property statement: make the change in "
        "TWO COOPERATING SITES that each look fine alone (a producer that stops maintaining a field and a consumer that still trusts it; a "
        "guard moved from the callee to only some of its callers; a value cached at one site and invalidated at another that misses one "
        "path; an invariant established in __init__ / Open and relied on in a rarely taken branch), so that the property breaks only when "
        "BOTH sites are exercised in one run, in a particular order. A harness that drives each operation in isolation from a fresh object "
        "would not see it; only a multi-step history does. The change should look like routine maintenance."),
  'l': ("look for what it is least likely to exercise while still being squarely inside the property statement: re-read the statement and the "
        "'must hold for' text clause by clause and pick the clause that a harness author would most probably have implemented weakly or "
        "forgotten - the LAST sentence, a parenthetical, an 'as well', an 'only', an 'until', a 'for each', a stated exception to a rule, or "
        "one of the enumerated cases of the quantifier that is least typical - and break exactly that clause, leaving the headline "
        "behaviour intact. Prefer a mechanism that depends on the HISTORY of the object (it manifests only if the object was earlier in some "
        "particular state: was full and drained, had failed and recovered, had been idle, had been resized, had seen a given message kind) or "
        "on a NON-DEFAULT configuration reached through the library's public constructors / builders."),
  'k': ("look for what it is least likely to exercise while still being squarely inside the property statement: make the change in a "
        "SHARED, LOWER-LEVEL or NEIGHBOURING module that this property's behaviour depends on only indirectly (for example "
        "scales/observable.py, scales/asynchronous.py, scales/message.py, scales/sink.py, scales/timer_queue.py, scales/varz.py, "
        "scales/scales_socket.py, scales/binary.py, scales/compat.py, scales/dispatch.py, scales/core.py, scales/pool/base.py, "
        "scales/loadbalancer/serverset.py, a builder module) rather than in the module that implements the property's main logic, so that "
        "the property breaks only in one particular situation while the helper's own obvious uses keep working. State in notes.md which "
        "call path connects your change to the property."),
  'j': ("look for what it is least likely to exercise while still being squarely inside the property statement: LIFECYCLE edges (Close or "
        "shutdown while something is in flight or being opened, a second Close, Close before Open, use after Close, a client closed by its "
        "owner while a notification is being delivered), ALIASING (a dict, list or message object passed by reference and modified later by "
        "its owner or by the callee; a headers/properties dict reused for two requests; an iterator or generator consumed twice), the sink "
        "stack discipline (push / pop order, a sink that pops twice or not at all on one path), and DEFAULT / OPTIONAL parameters (a keyword "
        "omitted, None passed explicitly, an empty list or empty string where a value is usual). The change should look like routine "
        "maintenance (refactoring, tidying, a micro-optimisation, an added convenience)."),
  'i': ("look for what it is least likely to exercise while still being squarely inside the property statement: Python and gevent "
        "MECHANICS rather than domain logic - an exception swallowed (or let through) by a broadened / narrowed `except`, a `finally` or "
        "cleanup path that returns early, a mutable default argument or closure variable captured by reference in a loop, a collection "
        "modified by a callback while it is being iterated, `gevent.Timeout` / `GreenletExit` / `kill()` handling, the truth value or "
        "return value of `Event.wait()` / `AsyncResult.wait()` / `dict.get()`, str versus bytes and other compat shims, a log or "
        "metric statement whose formatting raises for an unusual value, `is` versus `==`, integer versus float arithmetic. The change should "
        "look like routine maintenance (refactoring, tidying, a micro-optimisation, better logging)."),
  'h': ("look for what it is least likely to exercise while still being squarely inside the property statement: EXACT BOUNDARIES "
        "(`<` versus `<=`: a queue exactly full, a size exactly at its minimum or maximum, a load exactly on the band limit, a count exactly "
        "zero or one, the last element, the first element, an empty collection), the exact ERROR CLASS or error content the statement names "
        "(a different exception type, a wrapped versus unwrapped error, an error delivered as a value), effects on OTHER calls, members, "
        "connections or holders than the one being operated on (collateral damage), ORDER of side effects visible to a callback (state "
        "updated after instead of before a notification), and NUMERIC edge cases (negative numbers, integer division, truncation instead of "
        "rounding, signed versus unsigned bytes, values that need more bits than usual)."),
  'g': ("look for what it is least likely to exercise while still being squarely inside the property statement: behaviour AFTER RECOVERY (the "
        "second failure after a successful reconnect, a member that leaves and re-joins twice, an object used again after it reported an error, "
        "a second timeout on the same connection), RE-ENTRANCY (a user callback or an upper sink that calls back into the same object while it "
        "is being notified), SUBSCRIPTIONS (a handler subscribed twice, never unsubscribed, or notified in a different order), SIMULTANEOUS events "
        "(two timers due at the same tick, a reply and its timeout at the same instant, join and leave of the same member back to back), and "
        "quantities DERIVED FROM TIME (zero or negative timeouts, deadlines already in the past when the call is issued, a clock that steps "
        "backwards or jumps far ahead). Changes in shared helpers (scales/sink.py stack handling, observable.py, asynchronous.py, message.py, "
        "dispatch.py, compat) that matter for this property only in one such situation are welcome."),
  'f': ("look for what it is least likely to exercise while still being squarely inside the property statement: SCALE and MAGNITUDE "
        "thresholds (the 17th member, the 257th or 65537th tag or byte, a 10th retry, counts that cross a power of two, clocks whose "
        "absolute value is as large as a real Unix time ~1.7e9 where float rounding bites, durations of days), CONFIGURATION values nobody "
        "tries (limits of 0 or 1, equal min and max, very large maxima, non-default resolution / back-off / watermark parameters), the "
        "INTERACTION of two features that each work alone (a timeout during a reconnect, a membership change during a drain, a close during "
        "an open, a fault signal during a close), arguments of an unusual but legal TYPE (bytes vs str, tuple vs list, subclass instances, "
        "generators, keyword-only use), and error paths taken twice."),
}

def main():
  wave, out = sys.argv[1], sys.argv[2]
  props = [json.loads(l) for l in open('/verif/properties.jsonl')]
  for p in props:
    pid = p['id']
    earlier = []
    for d in sorted(glob.glob('/verif/seeded/%s*/' % pid)):
      name = os.path.basename(d.rstrip('/'))
      if not name.startswith(pid) or (len(name) > 3 and not name[3:].isalpha()):
        continue
      notes = os.path.join(d, 'notes.md')
      if os.path.exists(notes):
        lines = [l.strip() for l in open(notes) if l.strip() and not l.startswith('#')]
        if lines:
          earlier.append(lines[0].lstrip('-* ')[:170])
    wt = '/tmp/wt/%s' % pid
    od = '%s/%s' % (out, pid)
    os.makedirs(od, exist_ok=True)
    note = ''
    if earlier:
      note = ('NOTE: %d other workers have ALREADY produced these changes: ' % len(earlier) +
              ' '.join('(%d) "%s ..."' % (i + 1, e) for i, e in enumerate(earlier)) +
              ' You must choose a DIFFERENT mechanism from all of them (different function, different clause or scenario of the property). ')
    text = """You are helping to evaluate a verification tool. You are given ONE behavioural property of the Python library "scales" (a gevent-based RPC client stack: sink pipeline, heap/aperture load balancers, watermark pools, timer queue, ThriftMux/Kafka framing) and your own scratch git worktree of the library at {wt} . Work ONLY inside {wt} and {od} . Do NOT read or touch /repo or /verif or any other /tmp/wt/* directory.

PROPERTY {pid}: {title}
Statement: {stmt}
Must hold for: {quant}

{note}A verification harness for this property exists and already covers the obvious scenarios; {hint} Avoid dead code: confirm the changed line is executed by your demo through the library's real classes. Avoid changes that break commonly used paths outright.

YOUR TASK: make a realistic change (a plausible bug a developer could introduce: an off-by-one, a dropped guard, a re-ordered pair of statements, a wrong variable, a missing decrement, a stale cache, a "harmless" optimisation or refactoring, two cooperating sites that each look fine alone ...) to the library source under {wt}/scales that BREAKS this property, while
  (a) the library still imports, and
  (b) the existing unit tests still pass:   cd {wt} && PYTHONPATH={wt} /venv/bin/python -m pytest -q -p no:cacheprovider test/scales     (52 tests must pass; run it before and after)
The breakage must need something specific to manifest - a particular interleaving/order of events, a fault at a particular point, a multi-step sequence of operations, an unusual input, or a particular configuration - NOT something that ordinary use would expose at once (not "every call fails"). Prefer subtle changes in the core logic that the property is about. Do not change tests. Do not add new files under scales/. Keep the change small (a few lines).

DELIVERABLES (write them to {od}/ ):
  1. patch.diff  - output of `git -C {wt} diff` (the change only; it must apply to a clean checkout with `git apply`).
  2. demo.py     - a small self-contained program, run as `PYTHONPATH=<tree> /venv/bin/python demo.py`, that exits 0 and prints PASS on the UNCHANGED tree and exits 1 and prints FAIL (with a short explanation) on the CHANGED tree. It may use gevent, mocks, fake sockets etc. Keep it deterministic (no real network, no long sleeps). Verify both outcomes yourself: run it against {wt} with your change, then save the patch (`git -C {wt} diff > patch.diff`), revert it with `git -C {wt} apply -R patch.diff`, run the demo again on the clean tree, then re-apply it with `git -C {wt} apply patch.diff`. Never use `git stash`, `git commit` or `git checkout` (other workers share the same repository).
  3. notes.md    - 5-10 lines: what you changed, why it breaks the property, what exactly is needed for it to manifest (the interleaving / fault / sequence / input / configuration), and the commands you ran with their results (tests pass: yes/no; demo on changed tree: FAIL; demo on clean tree: PASS).
Check with `PYTHONPATH={wt} /venv/bin/python -c "import scales; print(scales.__file__)"` that you are really importing from {wt}. The sandbox has no network. When you are done, reply with a 3-line summary (file changed, what is needed to manifest, whether all three verifications succeeded).
""".format(wt=wt, od=od, pid=pid, title=p['title'], stmt=p['statement'], quant=p['quantifier']['text'], note=note, hint=HINT[wave])
    open(os.path.join(od, 'PROMPT.txt'), 'w').write(text)
  print('wrote', len(props), 'prompts to', out)

if __name__ == '__main__':
  main()
