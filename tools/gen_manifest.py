#!/usr/bin/env python3
"""Regenerates /verif/MANIFEST.json from the table below (single source of truth)."""
import json
import os

ROOT = os.path.dirname(os.path.dirname(os.path.abspath(__file__)))

# id -> (engine, category, technique, level text, level note, design_ref)
CHECKS = {
  'C10': ('B', 'model_checking',
          'explicit-state BFS by history replay over the real TimerQueue on a virtual clock, with bounded preemption',
          'Every history of Schedule/cancel/timer/advance operations up to the stated depth (<=4 actions, <=2 operations '
          'landing between ready callbacks) is executed on the real TimerQueue under the real gevent on a virtual-time loop; '
          'exactly-once, never-early, on-time-without-further-activity, (rounded deadline, seq) order and cancellation are '
          'checked in every state and after running each state to the horizon. Exhaustive within the bound, which covers the '
          'worker clear/sleep(0)/peek/wait window the suite cannot reach.',
          'gevent loop contract (FIFO ready callbacks, timers noticed when the queue drains); one exact virtual clock; '
          'off-tick deadlines only', '3/C10'),
  'C17': ('E', 'exploration',
          'bounded-exhaustive enumeration of completion orders on the real AsyncResult combinators with a per-step reference comparison',
          'The full product of input count (<=5 quick, <=6 thorough), success/failure assignment, already-complete subset and completion '
          'order is run through the real WhenAll/WhenAny (nesting/failing level/order for Unwrap; source x timing x continuation for '
          'ContinueWith/Map) and compared with a reference after every completion step, so results that change after completing are caught.',
          'real gevent AsyncResult semantics on the virtual loop; zero-input combinators outside the alphabet', '3/C17'),
  'C18': ('E', 'exploration',
          'bounded-exhaustive enumeration of metric update sequences and sample streams against a dict reference model',
          'Every sequence of <=3 (quick) / <=4 (thorough) updates over 40 operations, each from a freshly constructed Source, and every '
          'sample stream up to length 6/8 with every reservoir coin outcome, run on the real VarzReceiver/VarzAggregator.',
          'reservoir size lowered to 3; virtual clock', '3/C18'),
  'C20': ('E', 'exploration',
          'bounded-exhaustive enumeration of interface shapes, call forms, arguments and URIs on the real proxy builder and URI parser',
          'Every (interface shape, method name, call form, argument tuple, dispatcher answer) combination from the stated alphabets and every '
          'ordered tcp endpoint selection / zk combination / foreign scheme is executed and compared with the expected dispatch.',
          'public method = no leading underscore', '3/C20'),
  'C03': ('B', 'model_checking',
          'explicit-state BFS by history replay over the real heap/aperture balancers with stub channels; every internal random outcome is a transition',
          'Every history of dispatch/complete/down/up/join/leave/clock operations up to the stated depth (6 members depth 9 for the '
          'dispatch/complete core, smaller member counts for the full alphabet; thorough: 7 members depth 11) is executed on the real '
          'balancer; at every dispatch the chosen member is compared with the reference model (open and least outstanding among the '
          'members in use).',
          'stub channels; channel state Open/Closed; bounded members/outstanding/depth', '3/C03'),
  'C04': ('B', 'model_checking',
          'explicit-state BFS by history replay over the real balancers; per-node load compared with a reference count in every state',
          'In every reachable state of the bounded history space the load attributed to every node ever created equals the number of '
          'dispatched-but-uncompleted requests of its channel, and members removed from the server set are closed at once (idle or marked '
          'down) or exactly when they drain, and never receive a request afterwards.',
          'reads node.load (anchored state); stub channels', '3/C04'),
  'C05': ('B', 'model_checking',
          'explicit-state BFS by history replay over join/leave notification histories incl. notifications queued during the initial load',
          'All histories of join/leave notifications (duplicates, unknown leaves, re-joins) interleaved with traffic, and all placements of '
          'up to 4 notifications before the initial GetServers() returns, on both balancers; in every state eligible endpoints '
          '(active + idle) and known servers equal the reference server set, plus a behavioural dispatch probe for the heap balancer.',
          'scripted server-set provider delivering notifications serially', '3/C05'),
  'C06': ('B', 'model_checking',
          'explicit-state BFS by history replay over the real ApertureBalancerSink on a virtual clock, plus exhaustive configuration x traffic-level settling sweeps',
          'Five (quick) / six (thorough) configurations x all histories of dispatch/complete/clock-advance/down/up/join/leave/'
          'pending-open outcome/jitter operations to the stated depth; on every transition: active/idle partition equals the server set, '
          'contraction floor min(min_size, members), load-driven growth ceiling max_size, smoothed load equals an independently '
          'recomputed EMA, and the step response (grow / shrink / hold). Settling: every configuration x steady level k, 12 smoothing windows.',
          'stub channels; one virtual clock; step response only on steps with no closed active member', '3/C06'),
  'C07': ('B', 'model_checking',
          'explicit-state BFS by history replay over the real WatermarkPoolSink with stub connections, incl. pending opens and bounded preemption',
          'For 14 (quick) / 24 (thorough) (min, max, queue) configurations every history of request / completion / queued-timeout / '
          'connection-death / open-outcome operations up to depth 12/18 is executed on the real pool; connection bound, single lending, FIFO, '
          'work conservation, max-waiters band, retention after traffic stops, close-fails-waiters-once and a capacity probe (burst of '
          'max requests) are checked in every state.',
          'stub connections fail a request sent on a closed connection, as both transports do; behaviour of requests arriving after the '
          'pool closed is not part of the statement', '3/C07'),
  'C01': ('S', 'model_checking',
          'stateless deviation-bounded schedule exploration (CHESS-style, <=3 quick / <=4 thorough deviations) of the real Thrift and ThriftMux clients over simulated sockets on a virtual-time gevent loop',
          'Nine scenarios (1-2 endpoints, 2-3 calls, calls issued while opening, slow connect, pool max 1, membership changes) x both '
          'stacks; every schedule with at most d deviations is executed on the real client built by the public builders. Monitors after every '
          'callback catch a result that changes after completion; lateness is checked at every quiescent point against t+T rounded up to '
          'the tick; TimeoutError before t+T is checked on completion.',
          'gevent loop contract; one virtual clock; off-tick deadlines; faults offered after I/O activity on the connection', '3/C01'),
  'C02': ('S', 'model_checking',
          'stateless deviation-bounded schedule exploration of the real clients with unique arguments and an echoing peer',
          'Serial (pooled connection reused after timeouts) and multiplexed (replies in any order, late, lost, split) scenarios; every '
          'value delivered must be the echo of the call\'s own argument and the server must decode exactly what callers passed.',
          'unique argument per call; peers decode with the generated Processor / an independent mux codec', '3/C02'),
  'C12': ('S', 'model_checking',
          'stateless deviation-bounded schedule exploration with the deadline placed at every hop of the request path',
          'Scenarios put the deadline while waiting for the open, during a slow connect, in the pool queue, while the pool creates a '
          'connection, in the mux send queue under back-pressure and on the wire; after the caller saw TimeoutError no later client write '
          'call may contain its request, and a written-but-unanswered mux request on an open connection must be followed by a Tdiscarded '
          'naming its tag.',
          'transmission = the client\'s write call (bytes handed to the socket); off-tick deadlines', '3/C12'),
  'C08': ('S', 'fault_enumeration',
          'exhaustive fault enumeration: every socket I/O call index x fault kind (and pairs; thorough: triples) on the real transports over simulated sockets',
          'For each scripted scenario (serial: deadline / withheld reply / colliding requests; mux: concurrent requests, withheld reply + '
          'timeout, requests issued while opening, peer that stops answering pings) a fault-free run records the socket I/O call sequence, '
          'then one execution per (call index x {exception, EOF, silence, refusal}) and per pair. Oracle: at most one response per request, '
          'failed connection => state Closed + fault signal + in-flight requests answered + pending Open failed, and a transport that says '
          'Open and idle must carry a fresh probe request.',
          'FakeSock behaves like a kernel socket for failed connects; silent peer without deadline on the serial transport is not a '
          'detectable failure; idle connections broken by the peer without client I/O are exempt from the probe', '3/C08'),
  'C09': ('S', 'model_checking',
          'exhaustive enumeration of fault histories (down time x connect answer x up time on a 0.5 s grid x close time) executed on the real clients over a 150-200 s virtual horizon',
          'Both stacks x 1-2 endpoints x endpoint down at first connect / at 2.25 s x refused / unanswered connects x every up time on the '
          'grid (and never) [thorough: x client close times]: one call per second; every call issued inside a down period (defined from '
          'environment facts) must fail at once with FailedFastError or be served by another member; reconnect gaps are non-decreasing '
          'and capped; traffic resumes within one max interval after the endpoint is reachable; no connect after Close.',
          'prompt in-order network; unanswered connects fail after a 20 s kernel timeout; virtual time', '3/C09'),
  'C11': ('B+S', 'model_checking',
          'BFS over TagPool histories plus stateless deviation-bounded exploration of the real ThriftMux transport against an adversarial peer',
          'Part 1: every get/release/double-release history of the real TagPool(max_tag=7) to depth 10/12. Part 2: the real mux transport '
          'over simulated sockets; requests with and without deadlines, replies in any order, deadlines firing before or after the write, '
          'bogus peer frames (tag 0, tag 1 non-ping, highest+1, highest+5, duplicates, unsolicited Rping), reset + fresh transport; every '
          'frame the independent peer decodes is checked: tag in [2, 2^24-2], not carried by another unanswered request, never reserved, '
          'and tag consumption bounded by the peak number of tag-holding requests.',
          'max_tag abstraction 7 for the pool; independent mux codec; re-open = fresh transport object', '3/C11'),
  'C16': ('B', 'model_checking',
          'explicit-state BFS by history replay over the real SingletonPoolSink, RefCountedSink and SharedSinkProvider with stub sinks',
          'Singleton pool: all histories of Open/Close/request/completion/fault/open-outcome (immediate and pending opens) to depth 8/10: at most '
          'one live underlying connection in every state, no request on a connection that had failed before it arrived. RefCountedSink: all '
          'Open/Close histories by three holders incl. surplus closes: underlying Open exactly on 0->1, Close exactly on 1->0, same Open '
          'result in between. SharedSinkProvider: Create/Drop/gc histories over keys {k1,k2,None}.',
          'reference counting by count (holders are indistinguishable to the sink); gc only at explicit gc operations', '3/C16'),
  'C13': ('E', 'exploration',
          'bounded-exhaustive enumeration of contexts / client ids / deadlines / payloads through the real ThriftMux sink chain, decoded by an independent codec; full header round trip',
          'Every caller-property dictionary with 0-2 entries over {empty, ASCII, 2-byte, 3-byte, 300-char} strings x client id x deadline x '
          'argument is sent through ClientIdInterceptorSink -> ThriftMuxMessageSerializerSink -> SocketTransportSink over simulated sockets '
          'and decoded by an independent mux codec and the generated Thrift Processor; Tdiscarded bodies; every reply shape through the real '
          'receive path; header writer/reader inverse for reply types x tags (quick: all tags < 2^18 + boundary patterns, thorough: all 2^24).',
          'text context values only; deadline context checked for presence and length', '3/C13'),
  'C14': ('E', 'exploration',
          'bounded-exhaustive enumeration of calls x server outcomes x every split of the reply byte stream, against the Thrift library\'s own Processor',
          'Hello and a hand-written compiler-shaped service (echo, void, struct + declared exception, void + declared exception, two ints, '
          'oneway, derived interface over two modules) x text/struct argument alphabets x server outcomes {value, declared exception, '
          'application exception, handler crash, void, missing result} x every reply split with <= 2 (quick) / <= 3 (thorough) cut points and '
          'one byte at a time, through StaticDispatchMessage -> ThriftSerializerSink -> SocketTransportSink -> VarzSocketWrapper/ScalesSocket.',
          'vsvc is hand-written in generated shape; Thrift library does all encoding', '3/C14'),
  'C15': ('E', 'exploration',
          'bounded-exhaustive enumeration of produce requests and produce/metadata responses against an independent Kafka v0 codec, plus all reply orders of concurrent requests',
          'topic x partition x acks x payload list (empty, empty payload, all 256 byte values, 70 kB, several) through KafkaSerializerSink -> '
          'KafkaTransportSink over simulated sockets; sizes, CRC32 and header fields verified by an independent parser; every response from '
          'small domains incl. int64 extremes decoded by the real decoder; 2-3 concurrent requests with replies in every order.',
          'bytes topics only', '3/C15'),
  'C19': ('S', 'model_checking',
          'stateless deviation-bounded exploration (<=3 quick / <=4 thorough) of the real ServerSet on the real kazoo watch recipes over an in-memory ZooKeeper with one-shot watches',
          'Six (quick) / seven (thorough) mutation scripts (children created/deleted, path deleted and re-created with a re-used member '
          'name, path missing at start, members present at start, raising consumer callbacks, a concurrent get_members reader) x every '
          'interleaving of tree mutations with server-side handling of reads and delivery of responses / watch events up to d deviations; '
          'at the end the consumer\'s join/leave log must reproduce the members present, alternate per member, and no exception may '
          'escape into the watch machinery.',
          'kazoo below get/exists/get_children and session loss not modelled; FIFO server->client channel', '3/C19'),
}

# what the checks gained while being measured against the seeded changes (DESIGN.md sections 6c and 7.1); appended to the level text
ADDED = {
  'C01': 'on-tick deadlines, tags above 16 bits, a call in flight when the aperture jitter comes due (+120 s), one-preemption parts',
  'C02': 'partial writes and 33 s back-pressure, two connections (shared state, 4-byte reads with split replies), tags above 16 bits, a transport-level part (Open() again), a server that honours discards',
  'C03': 'upstream sink re-entering from its reply handler, aperture min_size 3 / tuple endpoints / wall-clock steps, a message object dispatched twice, balancers opened with an empty server set',
  'C04': 'upstream sink raising, named endpoints, timeouts while the balancer opens, wall-clock steps, left-the-set-must-close clause',
  'C05': 'channel-endpoint clause, min=max aperture, Close raising during a leave, named endpoints, first load failing (Exception / BaseException), Open() again, empty server set at open',
  'C06': 'second balancer in the process, sub-millisecond traffic, wall-clock steps, crash-then-leave (steps and settling), stock settings after a prior builder, every active member down (also while a replacement opens)',
  'C07': 're-entrant consumer, warm-up connection still opening, stock settings after a prior pool, bursts of up to 1200 (5000) queued requests answered synchronously, settings given through Clone()',
  'C08': 'bystander transport, re-entrant consumers, expired deadlines, connect timeout without errno, 5-byte reads (EOF inside a frame), open-and-idle-must-carry clause, unanswered Tping = connection failure after the 5 s ping timeout',
  'C09': 'double outages, two members, hour-long outages, hanging connects with a second pooled connection, close at the first error, prior client, ping-then-hang-up after k callbacks, stale-fault rule and fail-fast-while-up clause, three members closed after minutes',
  'C10': 'far deadlines, overdue sets, 7 pending actions, on-tick and just-past-tick deadlines at 1 s, callables without __name__, up to 300 (3000) blocking actions, clock jumps past several deadlines',
  'C11': 'Kafka transport, back-pressure scripts, replies for tags of queued requests, Rerr / BAD_Rerr, acknowledged discards, Open() again, 4-byte reads, tag counter jumps beyond 16 bits',
  'C12': 'discard-after-write ordering, transport-level parts (also behind a singleton pool), balancer-open hop on the balancer harness, tags above 16 bits, a 70 KB request, deadline firing while the periodic Tping is unanswered',
  'C13': 'interleaved writers under 31 s back-pressure, two service families, non-text property values, a message dispatched repeatedly, DEBUG logging, 3-byte reads / 7-byte sends, frame-boundary and ping-count clauses under back-pressure, an ordinary call following a rejected call on the same client',
  'C14': 'history-dependent call sequences, two service families, keyword calls, percent signs in exception texts, pooled timeout-then-call, write splits, an interface three levels deep, two calls in flight through one serializer over two connections',
  'C15': 'client id overrides, requests while connecting, call forms, batched replies, small I/O, the complete client x every produce error code, Kafka transport under deadline schedules',
  'C16': 'duplicate fault signals, Busy-reporting sink, killed waiter, yielding Close with a linearization oracle, labels in the shared provider',
  'C17': 'falsy values, BaseException failures, one object at several positions, input list mutated after the call, FromValue inputs, a continuation that blocks',
  'C18': 'ageing, end-to-end runs, two metric classes, zero amounts, assigned-after-construction sources, increments during an aggregation, reservoirs still filling when they age',
  'C19': 'value-keyed consumer, restarts with equal data, concurrent readers, kept iterator, the ZooKeeperServerSetProvider path with re-used node names, same-name re-creation, a snapshot-then-notifications consumer next to non-member children',
  'C20': 'same-named interfaces, decorated / aliased / _async-named methods, colliding keyword names, upper-case URIs, repeated endpoints, repeated SetUri, several parser objects',
}

NOT_BUILT = 'check not built yet in this session (planned, see DESIGN.md section 3)'

ALL = ['C%02d' % i for i in range(1, 21)]


def main():
  checks = []
  for pid in ALL:
    if pid not in CHECKS:
      continue
    eng, cat, tech, text, note, ref = CHECKS[pid]
    checks.append({
      'property_id': pid,
      'quick_cmd': './check %s --tier quick' % pid,
      'thorough_cmd': './check %s --tier thorough' % pid,
      'evidence_file': 'evidence/%s.json' % pid,
      'replay_cmd_template': './check %s --replay {path}' % pid,
      'engine': eng,
      'level_claimed': {'category': cat, 'text': text + (' Added since (DESIGN.md 6c, 7.1): ' + ADDED[pid] + '.' if pid in ADDED else ''),
                        'design_ref': 'DESIGN.md sections ' + ref + ', 6c'},
      'level_note': note,
      'technique': tech,
    })
  na = [{'property_id': pid, 'reason': NOT_BUILT} for pid in ALL if pid not in CHECKS]
  m = {
    'version': 1,
    'setup_cmd': '/venv/bin/python -c "import gevent, thrift, kazoo, six; print(\'deps ok\')"',
    'hooks': {
      'guard': 'SCALES_VERIF',
      'enable': 'none needed: all seams are reached from outside the repository (Hub(loop=...), module attribute rebinding, public builder API); checks import scales from /repo working tree on every run',
      'baseline_off_cmd': 'cd /repo && /venv/bin/python -m pytest -ra -q -p no:cacheprovider --timeout=900 --continue-on-collection-errors test/scales',
      'source_commits': [],
      'add_only': True,
    },
    'engines': [
      {'name': 'S', 'path': 'vt/explore.py', 'kind_free_text': 'stateless deviation-bounded schedule/fault exploration of the real code on a virtual-time gevent loop',
       'serves_properties': [p for p in CHECKS if 'S' in CHECKS[p][0]]},
      {'name': 'B', 'path': 'vt/bfs.py', 'kind_free_text': 'explicit-state breadth-first search by history replay over real objects with reference-model oracles',
       'serves_properties': [p for p in CHECKS if 'B' in CHECKS[p][0]]},
      {'name': 'E', 'path': 'vt/checks', 'kind_free_text': 'bounded-exhaustive enumeration of input shapes / completion orders / stream splits against independent reference codecs',
       'serves_properties': [p for p in CHECKS if 'E' in CHECKS[p][0]]},
    ],
    'checks': checks,
    'not_applicable': na,
    'notes': 'All checks run the real scales code from /repo under the real gevent on a virtual-time loop (vt/vloop.py). '
             'Exit 2 / HARNESS-ERROR means the check itself is broken. known_findings.json lists recorded and fixed defects.',
  }
  with open(os.path.join(ROOT, 'MANIFEST.json'), 'w') as f:
    json.dump(m, f, indent=1)
  print('MANIFEST.json: %d checks, %d not applicable' % (len(checks), len(na)))


if __name__ == '__main__':
  main()
