#!/usr/bin/env python3
"""Rewrites the seeded-change table in DESIGN.md (between the SEEDED-TABLE markers) from seeded/*/meta.json."""
import glob, json, os, re
R = os.path.dirname(os.path.dirname(os.path.abspath(__file__)))
rows = []
for f in sorted(glob.glob(R + '/seeded/*/meta.json')):
  m = json.load(open(f))
  name = os.path.basename(os.path.dirname(f))
  patch = open(os.path.join(os.path.dirname(f), 'patch.diff')).read()
  files = sorted(set(re.findall(r'^\+\+\+ b/(\S+)', patch, re.M)))
  notes = (m.get('needs_to_manifest') or '').strip().splitlines()
  first = ''
  for l in notes:
    l = l.strip('-* #').strip()
    if l and not l.lower().startswith(('c0', 'c1', 'c2', 'seeded')):
      first = l
      break
  res = m.get('check_results', {})
  caught = m.get('caught_by') or []
  clause = ''
  for k in caught:
    for l in res[k]['lines']:
      if 'clause=' in l:
        clause = l.split('clause=')[1].split(' ')[0]
        break
    if clause:
      break
  rows.append('| %s | %s | %s | %s | %s | %s |' % (name, m['property'], ', '.join(files), first[:170].replace('|', '/'),
                                                m.get('verdict', '?').replace('caught by ', ''), clause))
table = ['| seed | property | file changed | what it is / what it needs | caught by | clause |', '|---|---|---|---|---|---|'] + rows
p = R + '/DESIGN.md'
s = open(p).read()
a, b = '<!-- SEEDED-TABLE-BEGIN -->', '<!-- SEEDED-TABLE-END -->'
if a in s:
  s = s[:s.index(a) + len(a)] + '\n' + '\n'.join(table) + '\n' + s[s.index(b):]
  open(p, 'w').write(s)
print('\n'.join(table))
