#!/bin/bash
# usage: tools/trywt.sh <worktree with a change applied> <check id> [tier]  -- run one check against a scratch tree; /repo, evidence/ and replays/ untouched
mkdir -p /tmp/w/out/evidence /tmp/w/out/replays
cd /verif; VERIF_REPO=$1 VERIF_OUT=/tmp/w/out ./check $2 --tier ${3:-quick} 2>&1 | grep -E "OK|VIOL|clause|HARNESS|Error" | head -5 | cut -c1-330
