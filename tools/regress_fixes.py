#!/usr/bin/env python3
"""For every 'fixed' entry of known_findings.json: take a scratch worktree of /repo HEAD (outside /repo and /verif), reverse-apply that
"fix:" commit there (the defect returns), run the repository's tests (they must still pass - they did before the repair) and the
property's check against the scratch tree (tools/trywt.sh conventions: VERIF_REPO / VERIF_OUT; /repo, evidence/ and replays/ untouched).
The check must exit 1 with a VIOLATION line: a fixed entry suppresses nothing.  Result -> regress_fixes.json; worktrees are removed.

usage: tools/regress_fixes.py [-j N] [--tier quick|thorough] [commit ...]
"""
import json, os, subprocess, sys, time
from concurrent.futures import ThreadPoolExecutor

V = os.path.dirname(os.path.dirname(os.path.abspath(__file__)))
PY = '/venv/bin/python'
# repairs that cannot be undone on their own any more: a later repair rewrote the same lines (24ecce9 <- 3452ef4, both in
# MessageDispatcher.DispatchMethodCall), or made the earlier one redundant (after 6809925 the notification worker diffs every listing
# against the announced members, so the de-duplication of 7ee97bb never sees a known member).  The later repair is undone first.
ALSO_REVERT_FIRST = {'24ecce9': ['3452ef4'], '7ee97bb': ['6809925']}


def sh(cmd, cwd=None, env=None, timeout=3600):
  e = dict(os.environ)
  if env:
    e.update(env)
  p = subprocess.run(cmd, shell=True, cwd=cwd, env=e, stdout=subprocess.PIPE, stderr=subprocess.STDOUT, timeout=timeout)
  return p.returncode, p.stdout.decode('utf-8', 'replace')


def one(commit, props, tier):
  wt = '/tmp/rf/wt_%s' % commit
  out = '/tmp/rf/out_%s' % commit
  sh('git -C /repo worktree remove --force %s' % wt)
  sh('rm -rf %s %s; mkdir -p %s/evidence %s/replays' % (wt, out, out, out))
  res = {'commit': commit, 'properties': props, 'tier': tier}
  rc, o = sh('git -C /repo worktree add -q --detach %s HEAD' % wt)
  try:
    for c in ALSO_REVERT_FIRST.get(commit, []):
      rc, o = sh('git show %s -- scales | git apply -R' % c, cwd=wt)
      res.setdefault('also_reverted', []).append(c)
    rc, o = sh('git show %s -- scales | git apply -R' % commit, cwd=wt)
    res['reverts_cleanly'] = rc == 0
    if rc != 0:
      res['note'] = 'later repairs changed the same lines: ' + o.strip()[-200:]
      return res
    res['subject'] = sh('git -C /repo log -1 --format=%%s %s' % commit)[1].strip()
    rc, o = sh('%s -m pytest -q test/scales 2>&1 | tail -1' % PY, cwd=wt, timeout=900)
    res['tests_with_defect_back'] = o.strip()
    res['checks'] = {}
    for p in props:
      t0 = time.time()
      rc, o = sh('./check %s --tier %s' % (p, tier), cwd=V, env={'VERIF_REPO': wt, 'VERIF_OUT': out}, timeout=5400)
      lines = [l[:300] for l in o.splitlines() if l.startswith(('VIOLATION', 'OK', 'KNOWN', 'HARNESS', '  clause'))][:4]
      res['checks'][p] = {'exit': rc, 'wall_s': round(time.time() - t0, 1), 'lines': lines}
    res['reported_again'] = all(c['exit'] == 1 and any(l.startswith('VIOLATION property=%s' % p) for l in c['lines'])
                                for p, c in res['checks'].items())
  finally:
    sh('git -C /repo worktree remove --force %s' % wt)
    sh('rm -rf %s %s' % (wt, out))
  return res


def main():
  args = sys.argv[1:]
  j, tier, only = 3, 'quick', []
  while args:
    a = args.pop(0)
    if a == '-j':
      j = int(args.pop(0))
    elif a == '--tier':
      tier = args.pop(0)
    else:
      only.append(a)
  kf = json.load(open(os.path.join(V, 'known_findings.json')))
  es = kf if isinstance(kf, list) else kf.get('findings', kf.get('entries'))
  by = {}
  for e in es:
    if e.get('status') == 'fixed' and (not only or e['commit'] in only):
      by.setdefault(e['commit'], [])
      if e['property'] not in by[e['commit']]:
        by[e['commit']].append(e['property'])
  os.makedirs('/tmp/rf', exist_ok=True)
  with ThreadPoolExecutor(j) as ex:
    results = list(ex.map(lambda kv: one(kv[0], kv[1], tier), by.items()))
  for r in results:
    print(r['commit'], r['properties'], 'reverts_cleanly=%s' % r.get('reverts_cleanly'), 'tests=%r' % r.get('tests_with_defect_back'),
          'reported_again=%s' % r.get('reported_again'), r.get('note', ''))
  path = os.path.join(V, 'regress_fixes.json')
  old = {}
  if only and os.path.exists(path):
    old = {r['commit']: r for r in json.load(open(path))['results']}
  for r in results:
    old[r['commit']] = r
  json.dump({'generated_at': time.strftime('%Y-%m-%d %H:%M:%S'), 'repo_head': sh('git -C /repo rev-parse --short HEAD')[1].strip(),
             'results': list(old.values())}, open(path, 'w'), indent=1)
  return 0


if __name__ == '__main__':
  sys.exit(main())
