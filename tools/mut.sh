#!/bin/bash
# usage: tools/mut.sh <patch.diff> <ID> [<ID> ...]   -- apply a patch to /repo, run checks, always revert
set -u
patch="$1"; shift
cd /repo || exit 2
if ! git diff --quiet; then echo "/repo dirty, refusing"; exit 2; fi
git apply "$patch" || { echo "patch does not apply"; exit 2; }
trap 'git -C /repo checkout -- . ' EXIT
cd /verif
rc=0
for id in "$@"; do
  out=$(VERIF_TIER=${VERIF_TIER:-quick} timeout ${MUT_TIMEOUT:-900} ./check "$id" 2>&1); c=$?
  echo "== $id exit=$c"; echo "$out" | grep -E "VIOLATION|KNOWN-FINDING|OK property|HARNESS|clause=" | head -8
  [ $c -ne 0 ] && rc=1
done
exit $rc
