#!/bin/bash
# usage: tools/runall.sh [tier] [seed]  -- run every check, print one line each
tier=${1:-quick}; seed=${2:-0}
cd /verif
for i in 01 02 03 04 05 06 07 08 09 10 11 12 13 14 15 16 17 18 19 20; do
  s=$(date +%s)
  out=$(VERIF_SEED=$seed ./check C$i --tier $tier 2>&1); rc=$?
  e=$(( $(date +%s) - s ))
  echo "C$i rc=$rc ${e}s $(echo "$out" | grep -E 'OK property|VIOLATION|HARNESS|KNOWN' | head -2 | tr '\n' ' ' | cut -c1-160)"
done
