#!/usr/bin/env python3
"""Validate MANIFEST.json and evidence/*.json against the schemas (run with python3-vt)."""
import json, sys, glob, os
import jsonschema
R = os.path.dirname(os.path.dirname(os.path.abspath(__file__)))
ok = True
ms = json.load(open('/root/.vp/MANIFEST.schema.json'))
es = json.load(open('/root/.vp/EVIDENCE.schema.json'))
try:
  jsonschema.validate(json.load(open(R + '/MANIFEST.json')), ms); print('MANIFEST ok')
except Exception as e:
  ok = False; print('MANIFEST INVALID', str(e)[:500])
for f in sorted(glob.glob(R + '/evidence/*.json')):
  try:
    jsonschema.validate(json.load(open(f)), es); print(os.path.basename(f), 'ok')
  except Exception as e:
    ok = False; print(os.path.basename(f), 'INVALID', str(e)[:500])
sys.exit(0 if ok else 1)
