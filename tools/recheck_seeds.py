#!/usr/bin/env python3
"""Re-run the property checks against every kept seed, in parallel, without touching /repo:
   tools/recheck_seeds.py [-j N] [name ...]
For each seeded/<name>/: a scratch worktree of /repo HEAD (outside /repo and /verif) gets the patch applied, the check(s) of the
seed's property run against it (VERIF_REPO / VERIF_OUT point the check at the scratch tree and a scratch output directory), the
verdict goes into seeded/<name>/meta.json, and the worktree is removed.  (tools/seedeval.py establishes that a seed is valid -
tests pass, demo flips - and is the only place that applies a patch to /repo itself; this tool only re-judges detection.)"""
import concurrent.futures
import glob
import json
import os
import shutil
import subprocess
import sys
import time

VERIF = '/verif'
EXTRA = {'C13c': ['C13', 'C14'], 'C15c': ['C15', 'C11'], 'C06d': ['C06', 'C03'], 'C14d': ['C14', 'C02'], 'C05k': ['C05', 'C19'], 'C05l': ['C05', 'C19'], 'C02l': ['C02', 'C12'], 'C09l': ['C09', 'C04']}


def sh(cmd, env=None, timeout=3600):
  e = dict(os.environ)
  e.update(env or {})
  p = subprocess.run(cmd, shell=True, env=e, stdout=subprocess.PIPE, stderr=subprocess.STDOUT, timeout=timeout)
  return p.returncode, p.stdout.decode('utf-8', 'replace')


def one(name):
  d = os.path.join(VERIF, 'seeded', name)
  meta = json.load(open(os.path.join(d, 'meta.json')))
  wt = '/tmp/rs/%s' % name
  out = '/tmp/rs/out_%s' % name
  os.makedirs('/tmp/rs', exist_ok=True)
  sh('git -C /repo worktree remove --force %s' % wt)
  for attempt in range(6):
    rc, o = sh('git -C /repo worktree add -q --detach %s HEAD' % wt)
    if rc == 0:
      break
    time.sleep(1 + attempt)        # another thread holds git's lock
  if rc == 0:
    rc, o = sh('git -C %s apply %s/patch.diff' % (wt, d))
  results = {}
  try:
    if rc != 0:
      return name, 'patch does not apply: ' + o[-200:]
    os.makedirs(out + '/evidence', exist_ok=True)
    os.makedirs(out + '/replays', exist_ok=True)
    for c in EXTRA.get(name, [meta['property']]):
      t0 = time.time()
      rc, o = sh('cd %s && ./check %s --tier quick' % (VERIF, c), env={'VERIF_REPO': wt, 'VERIF_OUT': out})
      lines = [l for l in o.splitlines() if 'VIOLATION' in l or 'clause=' in l or 'OK property' in l or 'HARNESS' in l or 'KNOWN-FINDING' in l]
      results['%s/quick' % c] = {'exit': rc, 'wall_s': round(time.time() - t0, 1), 'lines': lines[:6]}
      if rc != 0:
        break
  finally:
    sh('git -C /repo worktree remove --force %s' % wt)
    shutil.rmtree(wt, ignore_errors=True)
    shutil.rmtree(out, ignore_errors=True)
  caught = [k for k, v in results.items() if v['exit'] == 1]
  broken = [k for k, v in results.items() if v['exit'] not in (0, 1)]
  meta['check_results'] = results
  meta['caught_by'] = caught
  meta['verdict'] = ('caught by ' + ', '.join(caught)) if caught else ('HARNESS ERROR in ' + ', '.join(broken) if broken else 'MISSED')
  meta['rechecked_at'] = time.strftime('%Y-%m-%d %H:%M:%S')
  meta.setdefault('ran', []).append('tools/recheck_seeds.py: checks re-run against a scratch worktree with the patch applied -> %s' % meta['verdict'])
  with open(os.path.join(d, 'meta.json'), 'w') as f:
    json.dump(meta, f, indent=1)
  return name, meta['verdict']


def main():
  args = sys.argv[1:]
  j = 3
  if args and args[0] == '-j':
    j = int(args[1])
    args = args[2:]
  names = args or sorted(os.path.basename(os.path.dirname(p)) for p in glob.glob(VERIF + '/seeded/*/meta.json'))
  with concurrent.futures.ThreadPoolExecutor(max_workers=j) as ex:
    for name, verdict in ex.map(one, names):
      print('=== %s %s' % (name, verdict), flush=True)


if __name__ == '__main__':
  main()
