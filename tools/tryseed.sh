#!/bin/bash
# usage: tools/tryseed.sh <seed_dir> <check id> [tier]   -- apply seed to /repo, run one check, revert
cd /repo || exit 2
if ! git diff --quiet; then echo "/repo dirty"; exit 2; fi
git apply "$1/patch.diff" || exit 2
trap 'git -C /repo checkout -- .; find /verif/replays -name "*.json" -delete' EXIT
cd /verif; ./check $2 --tier ${3:-quick} 2>&1 | grep -E "OK|VIOL|clause|HARNESS|Error" | head -5 | cut -c1-300
