"""Process-wide set-up (boot), per-execution reset, the chooser and the random shim.

Every execution of every engine goes through:  reset() -> build real scales objects -> drive them
from the main greenlet, asking the Chooser at every point where more than one thing can happen.
"""
import os
import sys

from . import vloop

REPO = os.environ.get('VERIF_REPO', '/repo')

_booted = False


def boot():
  """Install the virtual loop, then import scales from REPO's working tree."""
  global _booted
  if _booted:
    return vloop.loop()
  lp = vloop.install()
  if REPO in sys.path:
    sys.path.remove(REPO)
  sys.path.insert(0, REPO)
  import logging
  logging.disable(logging.CRITICAL)
  import scales  # noqa
  here = os.path.realpath(os.path.dirname(scales.__file__))
  want = os.path.realpath(os.path.join(REPO, 'scales'))
  if here != want:
    raise RuntimeError('scales imported from %s, expected %s' % (here, want))
  import scales.timer_queue  # noqa  (spawns the module-level timer greenlets on our hub)
  _install_random_shims()
  _snapshot_shared_containers()
  # The cyclic garbage collector must not run in the middle of an execution: collecting a suspended greenlet or an object
  # with a finalizer left over from an EARLIER execution unwinds it (finally blocks, lock releases, kill callbacks) and
  # can put callbacks on the loop of the current one, at a point that depends on allocation counts.  Collection happens
  # inside reset() instead, where whatever it schedules is discarded.
  import gc
  gc.disable()
  _booted = True
  reset()
  return lp


_SHARED = []     # (container object, pristine shallow copy) for every module-/class-level dict, set, list, deque of scales


def _snapshot_shared_containers():
  """Import every scales module and remember the contents of every module-level and class-level
  mutable container as they are right after import.  reset() puts those contents back, so that
  state a class or module shares between its instances cannot leak from one execution into the
  next (executions must be independent and replayable); *within* an execution such sharing is
  fully visible to the scenarios that use two instances."""
  import collections
  import copy
  import importlib
  import pkgutil
  import scales
  for m in pkgutil.walk_packages(scales.__path__, 'scales.'):
    try:
      importlib.import_module(m.name)
    except Exception:   # optional third-party dependency missing (e.g. redis)
      pass
  kinds = (dict, set, list, collections.deque)
  seen = set()

  def scan_class(c):
    if id(c) in seen:
      return
    seen.add(id(c))
    for k, v in list(vars(c).items()):
      if k.startswith('__'):
        continue
      if isinstance(v, kinds):
        _SHARED.append((v, copy.copy(v), c, k))
      elif isinstance(v, type):
        scan_class(v)

  for name, mod in list(sys.modules.items()):
    if mod is None or not (name == 'scales' or name.startswith('scales.')):
      continue
    for k, v in list(vars(mod).items()):
      if k.startswith('__'):
        continue
      if isinstance(v, kinds):
        _SHARED.append((v, copy.copy(v), mod, k))
      elif isinstance(v, type) and v.__module__ == name:
        scan_class(v)


def _restore_shared_containers():
  import scales.varz as varz
  for obj, saved, owner, key in _SHARED:
    if isinstance(saved, set):
      # a set that is equal again still remembers where its last pop() stopped (CPython's "finger"), which decides
      # what the next pop() returns: bind a brand-new set
      cur = owner.__dict__.get(key)
      if isinstance(cur, set):
        cur.clear()
      setattr(owner, key, set(saved))
      continue
    if obj == saved:
      continue
    if obj is varz.VarzReceiver.VARZ_METRICS:
      continue    # registry filled when a VarzBase subclass is *defined*; harness-defined classes register once per process
    if isinstance(obj, list):
      obj[:] = saved
    else:
      obj.clear()
      if isinstance(obj, dict):
        obj.update(saved)
      elif isinstance(obj, set):
        obj.update(saved)
      else:
        obj.extend(saved)


class Divergence(Exception):
  """Replaying a prefix did not reproduce the recorded choice points: harness error, never a
  property violation."""


class Point(object):
  __slots__ = ('labels', 'chosen', 'kind', 'costs')

  def __init__(self, labels, chosen, kind, costs):
    self.labels = labels
    self.chosen = chosen
    self.kind = kind
    self.costs = costs


class Chooser(object):
  """Replays `prefix`, then always answers 0 (the default).  Records every point."""

  def __init__(self, prefix=(), expect=None):
    self.prefix = list(prefix)
    self.expect = expect      # optional list of label tuples for the first len(prefix) points
    self.points = []

  def choose(self, labels, kind='env', costs=None):
    labels = tuple(labels)
    n = len(labels)
    if n == 0:
      raise Divergence('choice point with no alternatives')
    i = len(self.points)
    if i < len(self.prefix):
      c = self.prefix[i]
      if self.expect is not None and i < len(self.expect) and tuple(self.expect[i]) != labels:
        raise Divergence('point %d: expected %r, got %r' % (i, self.expect[i], labels))
      if c >= n:
        raise Divergence('point %d: choice %d out of range %r' % (i, c, labels))
    else:
      c = 0
    self.points.append(Point(labels, c, kind, costs))
    return c

  @property
  def choices(self):
    return [p.chosen for p in self.points]

  def trace(self):
    return [p.labels[p.chosen] for p in self.points]


_CHOOSER = None


def set_chooser(ch):
  global _CHOOSER
  _CHOOSER = ch


def chooser():
  return _CHOOSER


def choose(labels, kind='env', costs=None):
  if len(labels) == 1:
    return 0
  return _CHOOSER.choose(labels, kind, costs)


class RandomShim(object):
  """Stands in for the `random` module inside scales modules.  Every call is a labelled choice.
  `domain` hooks let a scenario restrict large ranges to representatives."""

  def __init__(self, site):
    self.site = site
    self.randint_domain = None   # fn(a, b) -> list of values, default first
    self.shuffle_perms = False
    self.p_choices = True

  def randint(self, a, b):
    if self.randint_domain is not None:
      vals = list(self.randint_domain(a, b))
    elif b - a <= 8:
      vals = list(range(a, b + 1))
    else:
      vals = [a, b, (a + b) // 2]
    if _CHOOSER is None or len(vals) == 1:
      return vals[0]
    i = choose(['%s.randint=%d' % (self.site, v) for v in vals], 'rand')
    return vals[i]

  def choice(self, seq):
    seq = list(seq)
    order = sorted(range(len(seq)), key=lambda k: str(seq[k]))
    if _CHOOSER is None or len(seq) == 1:
      return seq[order[0]]
    i = choose(['%s.choice=%s' % (self.site, seq[k]) for k in order], 'rand')
    return seq[order[i]]

  def shuffle(self, lst):
    if not self.shuffle_perms or _CHOOSER is None or len(lst) < 2:
      return
    import itertools
    perms = list(itertools.permutations(range(len(lst))))
    i = choose(['%s.shuffle=%s' % (self.site, ''.join(map(str, p))) for p in perms], 'rand')
    items = list(lst)
    lst[:] = [items[k] for k in perms[i]]

  def random(self):
    if _CHOOSER is None:
      return 0.99
    i = choose(['%s.random=high' % self.site, '%s.random=low' % self.site], 'rand')
    return 0.99 if i == 0 else 0.01


SHIMS = {}


def _install_random_shims():
  import scales.loadbalancer.heap as heap
  import scales.loadbalancer.aperture as aperture
  import scales.loadbalancer.base as base
  import scales.thriftmux.sink as tmsink
  import scales.varz as varz
  for name, mod in (('heap', heap), ('aperture', aperture), ('lbbase', base),
                    ('thriftmux', tmsink), ('varz', varz)):
    shim = RandomShim(name)
    SHIMS[name] = shim
    mod.random = shim


def _reset_shims():
  for s in SHIMS.values():
    s.randint_domain = None
    s.shuffle_perms = False


class _DeadWorker(object):
  def kill(self, block=False):
    pass


_RESETS = 0
_EXTRA_TQS = []
_PATCHES = []    # (object, attribute, original value): undone at the next reset


def patch(obj, attr, value):
  """Replace an attribute for the current execution only (a state seam a scenario asks for); reset() undoes it."""
  _PATCHES.append((obj, attr, obj.__dict__[attr] if attr in getattr(obj, '__dict__', {}) else getattr(obj, attr)))
  setattr(obj, attr, value)


def tag_jump(after, to):
  """State seam for the mux tag pool: once tag `after` has been handed out from the counter, the next tag that comes from
  the counter is `to`.  Stands for a connection on which the tags in between are held by earlier requests that were never
  answered (timed-out requests keep their tag until the peer acknowledges the discard), without issuing 65 000 requests."""
  import scales.mux.sink as ms
  orig = ms.TagPool.__dict__['get']

  def get(self):
    if not self._set and self._next == after:
      self._next = to - 1
    return orig(self)
  patch(ms.TagPool, 'get', get)


def track_timer_queue(q):
  """Timer queues a check creates itself are neutralised at the next reset (their worker is
  killed with all other greenlets; this only keeps TimerQueue.__del__ quiet)."""
  _EXTRA_TQS.append(q)
  return q


def reset():
  """Bring the process back to a pristine world: no greenlets, no timers, virtual epoch, fresh
  module-level timer queues, empty metric tables and caches."""
  lp = vloop.loop()
  lp.monitor = None
  set_chooser(None)
  _reset_shims()
  while _PATCHES:
    obj, attr, old = _PATCHES.pop()
    setattr(obj, attr, old)
  # kill everything that ever ran on the loop, let the kills unwind, then drop what is left
  for _ in range(4):
    gs = [g for g in lp._greenlets if not g.dead]
    lp._greenlets = []
    if not gs and not lp._ready:
      break
    for g in gs:
      k = getattr(g, 'kill', None)
      if k is not None:
        try:
          k(block=False)
        except Exception:
          pass
    vloop.run_ready(budget=20000)
  global _RESETS
  _RESETS += 1
  if _RESETS % 20 == 0:
    import gc
    gc.collect(2 if _RESETS % 2000 == 0 else 1)
    vloop.run_ready(budget=20000)
  lp._ready.clear()
  lp._timers = []
  lp._greenlets = []
  lp._now = vloop.EPOCH
  lp.wall_offset = 0.0
  lp.errors = []
  lp.callbacks_run = 0
  lp.log_errors = False

  import scales.timer_queue as tq
  import scales.sink as sink
  import scales.varz as varz
  import scales.loadbalancer.aperture as aperture
  import scales.core as core
  for old in (tq.GLOBAL_TIMER_QUEUE, tq.LOW_RESOLUTION_TIMER_QUEUE) + tuple(_EXTRA_TQS):
    old._worker = _DeadWorker()
    old._queue = []
  del _EXTRA_TQS[:]
  tq.GLOBAL_TIMER_QUEUE = tq.TimerQueue(time_source=lp.wall)      # time.time in the library; equal to lp.now unless a scenario steps the wall clock
  tq.LOW_RESOLUTION_TIME_SOURCE = tq.LowResolutionTime()
  tq.LOW_RESOLUTION_TIMER_QUEUE = tq.TimerQueue(
      time_source=tq.LOW_RESOLUTION_TIME_SOURCE.Get, resolution=1)
  # rebind every by-name import of the three module-level timer objects
  for name, mod in list(sys.modules.items()):
    if mod is None or not name.startswith('scales') or mod is tq:
      continue
    for attr in ('GLOBAL_TIMER_QUEUE', 'LOW_RESOLUTION_TIME_SOURCE', 'LOW_RESOLUTION_TIMER_QUEUE'):
      if attr in getattr(mod, '__dict__', {}):
        setattr(mod, attr, getattr(tq, attr))
  _restore_shared_containers()
  varz.VarzReceiver.VARZ_DATA.clear()
  core.ClientProxyBuilder._PROXY_TYPE_CACHE.clear()
  core.Scales.SERVICE_REGISTRY.clear()
  # let the freshly spawned timer workers reach their first wait
  vloop.run_ready()
  return lp


def settle(max_rounds=1):
  vloop.run_ready()
