"""Evidence files, known findings, VIOLATION lines and replay artefacts."""
import json
import os
import time

ROOT = os.path.dirname(os.path.dirname(os.path.abspath(__file__)))
# VERIF_OUT redirects what a run writes (scratch experiments against a scratch worktree: VERIF_REPO=<tree> VERIF_OUT=<dir>)
_OUT = os.environ.get('VERIF_OUT', ROOT)
EVIDENCE_DIR = os.path.join(_OUT, 'evidence')
REPLAY_DIR = os.path.join(_OUT, 'replays')
FINDINGS = os.path.join(ROOT, 'known_findings.json')

LEVELS = ('exploration', 'fault_enumeration', 'model_checking', 'proof', 'translation_validation', 'other')


def load_findings():
  if not os.path.exists(FINDINGS):
    return []
  with open(FINDINGS) as f:
    return json.load(f).get('findings', [])


def _match(entry, v):
  if entry.get('property') != v.get('property'):
    return False
  if entry.get('clause') != v.get('clause'):
    return False
  sig = v.get('sig', {})
  for k, want in entry.get('match', {}).items():
    if sig.get(k) != want:
      return False
  return True


class Report(object):
  def __init__(self, prop, tier, seed, level):
    assert level in LEVELS
    self.prop = prop
    self.tier = tier
    self.seed = seed
    self.level = level
    self.t0 = time.perf_counter()
    self.coverage = {}
    self.assumptions = []
    self.violations = []
    self.parts = []
    self._samples = []

  # ---- accumulating coverage -------------------------------------------------------------
  def add(self, key, n):
    self.coverage[key] = self.coverage.get(key, 0) + int(n)

  def put(self, key, value):
    self.coverage[key] = value

  def sample(self, s):
    if len(self._samples) < 6:
      self._samples.append(s)

  def part(self, name, **info):
    info['name'] = name
    self.parts.append(info)

  def violation(self, clause, message, sig=None, replay=None):
    self.violations.append({'property': self.prop, 'clause': clause, 'message': message,
                            'sig': sig or {}, 'replay': replay or {}})

  def add_violations(self, vs, replay_base=None):
    for v in vs:
      rp = dict(replay_base or {})
      rp.update(v.get('replay', {}))
      if 'history' in v:
        rp['history'] = v['history']
      self.violation(v.get('clause', '?'), v.get('message', ''), v.get('sig'), rp)

  def add_explore(self, name, agg, bound, params=None, replay_base=None):
    """Fold an explore.Agg into the coverage."""
    self.add('evaluations', agg.executions)
    self.add('states', agg.nodes)
    self.add('transitions', agg.edges)
    self.add('traces_validated_against_impl', agg.executions)
    self.part(name, engine='S', executions=agg.executions, deviation_bound_completed=(None if agg.capped else bound),
              capped=agg.capped, schedule_tree_nodes=agg.nodes, max_choice_points=agg.max_points,
              distinct_outcomes=len(agg.outcomes), executions_by_deviations={str(k): v for k, v in sorted(agg.by_dev.items())},
              params=params, wall_s=round(getattr(agg, 'wall', 0.0), 2))
    self.add('distinct_nontrivial', len(agg.outcomes))
    for s in agg.samples:
      s = dict(s)
      s['part'] = name
      self.sample(s)
    self.add_violations(agg.violations, replay_base)

  def add_bfs(self, name, res, max_depth, params=None, replay_base=None):
    self.add('evaluations', res.transitions)
    self.add('states', res.states)
    self.add('transitions', res.transitions)
    self.add('traces_validated_against_impl', res.transitions)
    self.add('distinct_nontrivial', res.states)
    self.part(name, engine='B', states=res.states, transitions=res.transitions,
              depth_completed=res.depth_completed + 1, max_depth=max_depth, capped=res.capped,
              frontier_sizes=res.level_sizes, params=params, wall_s=round(res.wall, 2))
    for s in res.samples:
      s = dict(s)
      s['part'] = name
      self.sample(s)
    self.add_violations(res.violations, replay_base)

  # ---- finishing ---------------------------------------------------------------------------
  def finish(self, rule, exhaustive=None):
    """Write evidence, print KNOWN-FINDING / VIOLATION lines, return the exit code."""
    findings = load_findings()
    known_hit = {}
    fresh = []
    for v in self.violations:
      hit = None
      for idx, e in enumerate(findings):
        if e.get('status') == 'known' and _match(e, v):
          hit = idx
          break
      if hit is None:
        fresh.append(v)
      else:
        known_hit.setdefault(hit, v)
    for idx, v in sorted(known_hit.items()):
      print('KNOWN-FINDING: property=%s %s' % (self.prop, findings[idx].get('what', v['message'])))

    cov = dict(self.coverage)
    cov['rule'] = rule
    cov['samples'] = self._samples or [{'note': 'no sample recorded'}]
    cov['parts'] = self.parts
    if exhaustive is not None:
      cov['exhaustive'] = bool(exhaustive)
    cov.setdefault('evaluations', 0)
    cov.setdefault('distinct_nontrivial', 0)
    cov['known_findings_matched'] = len(known_hit)
    ev = {
      'property_id': self.prop,
      'tier': self.tier,
      'seed': int(self.seed),
      'level': self.level,
      'coverage': cov,
      'assumptions': self.assumptions,
      'wall_s': round(time.perf_counter() - self.t0, 2),
      'violations': len(fresh),
    }
    os.makedirs(EVIDENCE_DIR, exist_ok=True)
    tmp = os.path.join(EVIDENCE_DIR, '%s.json.tmp' % self.prop)
    with open(tmp, 'w') as f:
      json.dump(ev, f, indent=1, sort_keys=True, default=str)
    os.replace(tmp, os.path.join(EVIDENCE_DIR, '%s.json' % self.prop))

    if not fresh:
      print('OK property=%s tier=%s evaluations=%s states=%s wall=%.1fs' % (
        self.prop, self.tier, cov.get('evaluations'), cov.get('states', '-'), ev['wall_s']))
      return 0
    os.makedirs(REPLAY_DIR, exist_ok=True)
    seen_clauses = {}
    n = 0
    for v in fresh:
      c = v['clause']
      seen_clauses[c] = seen_clauses.get(c, 0) + 1
      if seen_clauses[c] > 3:
        continue
      n += 1
      path = os.path.join(REPLAY_DIR, '%s-%d.json' % (self.prop, n))
      with open(path, 'w') as f:
        json.dump(v, f, indent=1, default=str)
      print('VIOLATION property=%s replay=%s' % (self.prop, path))
      print('  clause=%s %s' % (c, v['message'][:600]))
    return 1
