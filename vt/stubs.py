"""Stub sinks / providers / server sets driven by the harness (the environment of a pool or balancer)."""
import collections

from . import vloop


def _scales():
  import scales.constants as C
  import scales.sink as S
  import scales.message as M
  import scales.asynchronous as A
  return C, S, M, A


Server = collections.namedtuple('Server', 'service_endpoint')


class StubCloseError(Exception):
  """Raised by a stub channel's Close() when the scenario asks for it (the channel is closed all the same)."""



def make_endpoint(i):
  from scales.loadbalancer.zookeeper import Endpoint
  return Endpoint('h%d' % i, 1000 + i)


def make_server(i):
  return Server(make_endpoint(i))


class RecLog(object):
  """Stands in for a logging.Logger on one object; records warnings."""
  def __init__(self):
    self.records = []

  def _rec(self, level):
    def f(msg, *a, **k):
      self.records.append((level, str(msg)))
    return f

  def __getattr__(self, name):
    if name in ('debug', 'info', 'warning', 'warn', 'error', 'exception', 'critical'):
      return self._rec(name)
    raise AttributeError(name)

  def getChild(self, name):
    return self


def make_stub_channel_class():
  C, S, M, A = _scales()

  class StubChannel(S.ClientMessageSink):
    """A channel whose state, open outcome and replies are decided by the harness."""
    def __init__(self, registry, endpoint, props):
      super(StubChannel, self).__init__()
      self.registry = registry
      self.endpoint = endpoint
      self.props = props
      self._state = C.ChannelState.Idle
      self.open_calls = 0
      self.close_calls = 0
      self.requests = []          # (rid, sink_stack, msg)
      self.open_ars = []
      self.serial = len(registry.channels)
      self.created_at = vloop.loop().now()
      self.close_event = None     # registry event counter at first Close()
      registry.channels.append(self)

    @property
    def state(self):
      return self._state

    def Open(self):
      self.open_calls += 1
      mode = self.registry.open_mode(self)
      if mode == 'ok':
        if self._state != C.ChannelState.Closed or self.registry.reopen_ok:
          self._state = C.ChannelState.Open
        return A.AsyncResult.Complete()
      if mode == 'fail':
        self._state = C.ChannelState.Closed
        ar = A.AsyncResult()
        ar.set_exception(Exception('open failed'))
        return ar
      ar = A.AsyncResult()          # 'pending': the harness completes it later
      self.open_ars.append(ar)
      return ar

    def finish_open(self, ok):
      ars, self.open_ars = self.open_ars, []
      if ok and self.close_calls == 0:
        self._state = C.ChannelState.Open
      else:
        self._state = C.ChannelState.Closed
      for ar in ars:
        if ok:
          ar.set(True)
        else:
          ar.set_exception(Exception('open failed'))

    def Close(self):
      self.close_calls += 1
      if self.close_event is None:
        self.close_event = self.registry.tick()
      self._state = C.ChannelState.Closed
      if getattr(self, 'close_raises', False):
        raise StubCloseError('closing channel #%d failed' % self.serial)

    def AsyncProcessRequest(self, sink_stack, msg, stream, headers):
      rid = msg.properties.get('__rid')
      self.requests.append((rid, sink_stack, msg))
      self.registry.on_request(self, rid, sink_stack, msg)

    def AsyncProcessResponse(self, sink_stack, context, stream, msg):
      raise NotImplementedError()

    def fault(self, reason='fault'):
      self._state = C.ChannelState.Closed
      self.on_faulted.Set(reason)

  return StubChannel


class Registry(object):
  """Shared bookkeeping for all stub channels of one execution."""
  def __init__(self):
    self.channels = []
    self.events = 0
    self.default_open = 'ok'
    self.open_script = {}       # channel serial -> mode
    self.reopen_ok = True
    self.request_log = []       # (event, channel serial, rid)
    self.cls = make_stub_channel_class()

  def tick(self):
    self.events += 1
    return self.events

  def open_mode(self, ch):
    if ch.serial < getattr(self, 'ok_first', 0):
      return 'ok'
    return self.open_script.get(ch.serial, self.default_open)

  def on_request(self, ch, rid, sink_stack, msg):
    self.request_log.append((self.tick(), ch.serial, rid))


class StubProvider(object):
  """next_provider for a balancer / pool: CreateSink(properties) -> StubChannel."""
  Role = None
  sink_properties = None

  def __init__(self, registry):
    self.registry = registry
    self.next_provider = None

  def CreateSink(self, properties):
    from scales.constants import SinkProperties
    return self.registry.cls(self.registry, properties.get(SinkProperties.Endpoint), properties)

  @property
  def sink_class(self):
    return self.registry.cls


def make_provider_class():
  from scales.loadbalancer.serverset import ServerSetProvider
  import gevent.event

  class ScriptedProvider(ServerSetProvider):
    def __init__(self, initial):
      self.members = list(initial)
      self.on_join = None
      self.on_leave = None
      self.gate = None          # gevent Event: GetServers blocks on it when set
      self.closed = 0
      self.init_calls = 0
      self.raise_once = False

    def Initialize(self, on_join, on_leave):
      self.init_calls += 1
      self.on_join = on_join
      self.on_leave = on_leave

    def Close(self):
      self.closed += 1

    def GetServers(self):
      if self.raise_once:
        exc = self.raise_once if isinstance(self.raise_once, BaseException) else Exception('server set unavailable')
        self.raise_once = False
        raise exc
      if self.gate is not None:
        self.gate.wait()
      return list(self.members)

  return ScriptedProvider


def make_terminal_class():
  C, S, M, A = _scales()

  class Terminal(S.ClientMessageSink):
    """Bottom of a sink stack: records every response that reaches the caller side."""
    def __init__(self):
      super(Terminal, self).__init__()
      self.responses = {}     # rid -> list of (time, msg)
      self.on_response = None # optional callable(context, msg) run after recording (may raise / re-enter)

    def AsyncProcessRequest(self, *a):
      raise NotImplementedError()

    def AsyncProcessResponse(self, sink_stack, context, stream, msg):
      self.responses.setdefault(context, []).append((vloop.loop().now(), msg, stream))
      if self.on_response is not None:
        self.on_response(context, msg)

  return Terminal
