"""Engine B: explicit-state breadth-first search by history replay over the real objects.

A state is the operation history that reaches it.  The check module supplies
  expand(params, hist) -> {'key': canonical key of the state reached by hist,
                           'children': [ {'op': op, 'key': key, 'violations': [...]} ... ],
                           'violations': [...]}      (violations found in the state itself)
where building a state means: world.reset(), create fresh real objects, apply each operation of
`hist` (each followed by run-to-quiescence).  An operation is a JSON-able value; when applying an
operation hits internal random choices, expand() enumerates every outcome and encodes it in the
op, so every random outcome is a separate transition.

Search is level-synchronous so the first counterexample is a shortest one; levels are sharded
over worker processes; the master de-duplicates on the canonical key.
"""
import hashlib
import importlib
import random
import time

from .explore import make_pool, _get_fn  # noqa


def _expand_task(args):
  module, func, params, hist = args
  fn = _get_fn(module, func)
  return hist, fn(params, hist)


def _h(key):
  """Canonical state keys can be long; the visited set keeps a 96-bit digest of each (collisions are negligible at
  10^7 states: ~10^-15)."""
  return hashlib.blake2b(str(key).encode('utf-8'), digest_size=12).digest()


class BfsResult(object):
  def __init__(self):
    self.states = 0
    self.transitions = 0
    self.depth_completed = -1
    self.level_sizes = []
    self.violations = []
    self.samples = []
    self.capped = False
    self.builds = 0
    self.wall = 0.0


def run_bfs(module, func, params, max_depth, pool, seed=0, max_states=None, deadline=None,
            stop_on_violation=True):
  rng = random.Random(seed)
  res = BfsResult()
  t0 = time.perf_counter()
  seen = {}
  frontier = [[]]
  root_done = False
  depth = 0
  while frontier and depth <= max_depth:
    tasks = [(module, func, params, h) for h in frontier]
    rng.shuffle(tasks)
    nxt = []
    level_new = 0
    level_idx = {}        # digest -> index in nxt, for states first seen in this level
    chunk = max(1, min(8, len(tasks) // 64))
    for hist, out in pool.imap_unordered(_expand_task, tasks, chunksize=chunk):
      if not root_done:
        seen[_h(out['key'])] = 0
        res.states += 1
        root_done = True
      for v in out.get('violations', ()):
        if len(res.violations) < 100:
          vv = dict(v)
          vv.setdefault('history', hist)
          res.violations.append(vv)
      res.builds += out.get('builds', 0)
      for ch in out['children']:
        res.transitions += 1
        for v in ch.get('violations', ()):
          if len(res.violations) < 100:
            vv = dict(v)
            vv.setdefault('history', hist + [ch['op']])
            res.violations.append(vv)
        k = _h(ch['key'])
        if k in level_idx:
          # the same state reached by another history in this level: the representative that gets expanded is the smallest
          # history, so that the search does not depend on the order in which workers deliver results
          h2 = hist + [ch['op']]
          if repr(h2) < repr(nxt[level_idx[k]]):
            nxt[level_idx[k]] = h2
        if k not in seen:
          seen[k] = depth + 1
          res.states += 1
          level_new += 1
          if depth + 1 <= max_depth and not ch.get('terminal'):
            level_idx[k] = len(nxt)
            nxt.append(hist + [ch['op']])
          if len(res.samples) < 3 and depth + 1 >= min(max_depth, 4):
            res.samples.append({'history': hist + [ch['op']], 'key': str(ch['key'])[:300]})
    res.level_sizes.append(len(frontier))
    res.depth_completed = depth
    depth += 1
    # children of the deepest level were generated (and checked) but are not expanded further
    frontier = nxt if depth < max_depth else []
    if res.violations and stop_on_violation:
      break
    if max_states and res.states >= max_states and frontier:
      res.capped = True
      break
    if deadline and time.perf_counter() > deadline and frontier:
      res.capped = True
      break
  res.wall = time.perf_counter() - t0
  return res


def enumerate_choices(apply_fn):
  """Run apply_fn(choice_prefix) for every outcome of the internal choices it hits.
  apply_fn must rebuild its state itself; it returns (points, payload) where points is a list of
  (labels, chosen).  Yields (choices, payload) for every complete choice vector."""
  stack = [[]]
  while stack:
    pfx = stack.pop()
    points, payload = apply_fn(pfx)
    choices = [p[1] for p in points]
    yield choices, payload
    for i in range(len(pfx), len(points)):
      for alt in range(1, len(points[i][0])):
        stack.append(choices[:i] + [alt])
