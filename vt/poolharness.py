"""Harness for WatermarkPoolSink (C07): the real pool over stub connections, a reference model, oracles.

Operations (last element = vector of internal choices, always [] here):
  ['Req']            a new request arrives (its own greenlet, as the dispatcher does)
  ['Done', rid]      the connection lent to request rid answers it
  ['Timeout', rid]   request rid, waiting in the pool's queue, times out exactly as ClientTimeoutSink does it:
                     deadline event set, the sink stack drained from the top with TimeoutError
  ['Die', serial]    connection dies: state Closed + fault signal; if it is carrying a request, that request is
                     failed by the connection (what the transports do, C08)
  ['OpenOk', serial] / ['OpenFail', serial]   a connection being created finishes opening (pending-open configs)
A trailing preemption mode j>0 (['Req', j]) means: run only j-1 ready callbacks afterwards.
"""
from . import stubs, vloop, world


class PoolWorld(object):
  def __init__(self, params):
    import gevent
    from scales.constants import SinkProperties
    from scales.pool.watermark import WatermarkPoolSink
    self.p = params
    self.lp = vloop.loop()
    self.mn, self.mx, self.ql = params['min'], params['max'], params['qlen']
    self.reg = stubs.Registry()
    self.reg.default_open = params.get('open_mode', 'ok')
    self.reg.ok_first = params.get('ok_first', 0)
    self.reg.reopen_ok = False
    if params.get('stock_after_prior'):
      # another pool of the same process was configured earlier; this one leaves the queue length at its default (unbounded)
      WatermarkPoolSink.Builder(min_watermark=0, max_watermark=1, max_queue_len=1)
      builder = WatermarkPoolSink.Builder(min_watermark=self.mn, max_watermark=self.mx)
    elif params.get('via_clone'):
      # the public way to derive one configuration from another: a provider with other settings, cloned with every setting overridden
      builder = WatermarkPoolSink.Builder(min_watermark=1, max_watermark=7, max_queue_len=5).Clone(
        min_watermark=self.mn, max_watermark=self.mx, max_queue_len=self.ql)
    else:
      builder = WatermarkPoolSink.Builder(min_watermark=self.mn, max_watermark=self.mx, max_queue_len=self.ql)
    builder.next_provider = stubs.StubProvider(self.reg)
    self.pool = builder.CreateSink({SinkProperties.Endpoint: stubs.make_endpoint(0), SinkProperties.Label: 'svc'})
    self.Terminal = stubs.make_terminal_class()
    self.term = self.Terminal()
    self.viol = []
    self.reqs = []         # dict(rid, stack, msg, evt, state, serial, greenlet)
    self.rid = 0
    self.preempts = 0
    self.start_order = []  # rids in the order a connection received them
    self.faults_seen = []
    self.pool.on_faulted.Subscribe(lambda v: self.faults_seen.append(v))
    reg = self.reg
    base_on_request = reg.on_request

    def on_request(ch, rid, sink_stack, msg):
      from scales.constants import ChannelState
      from scales.message import MethodReturnMessage
      base_on_request(ch, rid, sink_stack, msg)
      if ch.state == ChannelState.Closed:
        # a request sent on a connection that is not open is failed by the connection itself (both transports do)
        sink_stack.AsyncProcessResponseMessage(MethodReturnMessage(error=Exception('connection not open')))
    reg.on_request = on_request
    self.extra = []        # requests issued re-entrantly by the consumer (their own fate is not judged)
    if params.get('reenter'):
      # a consumer that issues a new request from inside the callback that tells it a queued request failed because the
      # pool closed (a retry layer)
      def hook(context, msg):
        if msg is not None and type(getattr(msg, 'error', None)).__name__ == 'ServiceClosedError' and not self.extra:
          from scales.message import MethodCallMessage
          from scales.sink import ClientMessageSinkStack
          m2 = MethodCallMessage(None, 'm', (), {})
          m2.properties['__rid'] = 9000
          st = ClientMessageSinkStack()
          st.Push(self.term, 9000)
          self.extra.append(st)
          self.pool.AsyncProcessRequest(st, m2, None, {})
      self.term.on_response = hook
    self.open_ar = self.pool.Open()
    vloop.run_ready()
    self._sync()
    self._check('open', None)

  def v(self, clause, msg, **sig):
    self.viol.append({'clause': clause, 'message': msg, 'sig': sig})

  # ---- bookkeeping -----------------------------------------------------------------------------------
  def chan(self, s):
    return self.reg.channels[s]

  def existing(self):
    from scales.constants import ChannelState
    return [c for c in self.reg.channels if c.close_calls == 0 and c.state != ChannelState.Closed]

  def unanswered(self, ch):
    return [r for r in self.reqs if r['serial'] == ch.serial and r['state'] == 'lent']

  def _sync(self):
    """Refresh request states from what the stub connections, the pool queue and the terminal saw."""
    started = {}
    for (ev, s, rid) in self.reg.request_log:
      started.setdefault(rid, (ev, s))
    waiting = [id(w[0]) for w in self.pool._waiters]
    for r in self.reqs:
      resp = self.term.responses.get(r['rid'], [])
      r['responses'] = len(resp)
      if r['rid'] in started and r['serial'] is None:
        r['serial'] = started[r['rid']][1]
        self.start_order.append(r['rid'])
      if r['timed_out'] and r.get('timed_out_while') == 'getting' and not r['greenlet'].dead:
        r['state'] = 'getting'          # its caller has been answered, but the pool is still opening a connection for it
      elif r['timed_out'] and r.get('timed_out_while') == 'getting' and r['serial'] is not None and not r.get('conn_answered'):
        r['state'] = 'lent'             # the pool forwarded it to the new connection, which has yet to answer it
      elif resp:
        if r['state'] != 'done':
          r['state'] = 'done'
          m = resp[0][1]
          r['outcome'] = type(m.error).__name__ if m.error else 'ok'
      elif r['serial'] is not None:
        r['state'] = 'lent'
      elif id(r['stack']) in waiting:
        r['state'] = 'queued'
      else:
        r['state'] = 'getting' if not r['greenlet'].dead else 'lost'

  def live_waiters(self):
    return [r for r in self.reqs if r['state'] == 'queued']

  # ---- operations -------------------------------------------------------------------------------------
  def apply(self, op):
    name = op[0]
    args = [a for a in op[1:] if not isinstance(a, list)]
    mode = 0
    if name in ('Req',) and args:
      mode = args[0]
      args = []
    elif name in ('Done', 'Timeout') and len(args) > 1:
      mode = args[1]
      args = args[:1]
    self.pre = {'live_waiters': len(self.live_waiters()), 'entries': len(self.pool._waiters),
                'existing': len(self.existing()), 'pool_state': self.pool.state, 'quiescent': self.lp.quiescent()}
    try:
      getattr(self, '_op_' + name)(*args)
    except Exception as e:  # noqa
      # in the real stack this exception unwinds into the greenlet that delivered the event (a reply, a connection's death)
      self.v('C07.greenlet-died', 'the pool raised %s: %s while handling %r' % (type(e).__name__, e, op), error=type(e).__name__)
    if mode:
      self.preempts += 1
      vloop.run_ready(budget=mode - 1)
    else:
      vloop.run_ready()
    self._sync()
    self._check(name, op)

  def _op_Req(self):
    import gevent
    from scales.message import MethodCallMessage, Deadline
    from scales.observable import Observable
    from scales.sink import ClientMessageSinkStack
    self.rid += 1
    rid = self.rid
    msg = MethodCallMessage(None, 'm', (), {})
    msg.properties['__rid'] = rid
    evt = Observable()
    msg.properties[Deadline.EVENT_KEY] = evt
    stack = ClientMessageSinkStack()
    stack.Push(self.term, rid)
    g = gevent.spawn(self.pool.AsyncProcessRequest, stack, msg, None, {})
    self.reqs.append({'rid': rid, 'stack': stack, 'msg': msg, 'evt': evt, 'state': 'new', 'serial': None,
                      'greenlet': g, 'responses': 0, 'arrived_with': dict(self.pre), 'timed_out': False})

  def _req(self, rid):
    return next(r for r in self.reqs if r['rid'] == rid)

  def _op_Done(self, rid):
    from scales.message import MethodReturnMessage
    r = self._req(rid)
    r['conn_answered'] = True
    r['stack'].AsyncProcessResponseMessage(MethodReturnMessage(return_value='r%d' % rid))

  def _op_Timeout(self, rid):
    from scales.message import MethodReturnMessage, TimeoutError
    r = self._req(rid)
    r['timed_out'] = True
    r['timed_out_while'] = r['state']
    r['evt'].Set(True)
    r['stack'].AsyncProcessResponseMessage(MethodReturnMessage(error=TimeoutError()))

  def _op_Die(self, serial):
    from scales.message import MethodReturnMessage
    ch = self.chan(serial)
    busy = self.unanswered(ch)
    ch.fault('connection died')
    for r in busy:
      r['stack'].AsyncProcessResponseMessage(MethodReturnMessage(error=Exception('connection reset')))

  def _op_OpenOk(self, serial):
    self.chan(serial).finish_open(True)

  def _op_OpenFail(self, serial):
    self.chan(serial).finish_open(False)

  def enabled(self):
    p = self.p
    ops = []
    alpha = p['ops']
    modes = [0]
    if self.preempts < p.get('max_preempt', 0):
      modes += list(range(1, p.get('preempt_depth', 2) + 1))
    if not self.lp.quiescent():
      # only operations that make sense between two ready callbacks
      pass
    active = [r for r in self.reqs if r['state'] in ('lent', 'queued', 'getting', 'new')]
    from scales.constants import ChannelState
    closed = self.pool.state == ChannelState.Closed
    # what a closed pool does with requests that arrive afterwards is not part of the statement (the resurrector
    # above replaces a closed pool); after the pool closes only the remaining lent requests are completed
    if 'Req' in alpha and not closed and len(active) < p.get('max_active', 4) and len(self.reqs) < p.get('max_reqs', 6):
      for j in modes:
        ops.append(['Req'] + ([j] if j else []))
    if 'Done' in alpha:
      for r in self.reqs:
        if r['state'] == 'lent':
          for j in modes:
            ops.append(['Done', r['rid']] + ([j] if j else []))
    if 'Timeout' in alpha:
      for r in self.reqs:
        if r['state'] == 'queued' or (r['state'] == 'getting' and not r['timed_out']):
          ops.append(['Timeout', r['rid']])
    if 'Die' in alpha:
      died = sum(1 for c in self.reg.channels if getattr(c, 'died', False))
      if died < p.get('max_die', 1):
        for c in self.existing():
          if not c.open_ars:
            ops.append(['Die', c.serial])
    if 'Open' in alpha:
      for c in self.reg.channels:
        if c.open_ars:
          ops.append(['OpenOk', c.serial])
          ops.append(['OpenFail', c.serial])
    return ops

  # ---- oracles ---------------------------------------------------------------------------------------------
  def _check(self, name, op):
    from scales.constants import ChannelState
    pool = self.pool
    if name == 'Die':
      self.chan(op[1]).died = True
    if self.lp.errors:
      e = self.lp.errors[0]
      self.v('C07.greenlet-died', 'after %r a pool greenlet died with %s: %s' % (op, e[1], e[2]), error=e[1])
      self.lp.errors = []
    quiescent = self.lp.quiescent()
    ex = self.existing()
    if len(ex) > self.mx:
      self.v('C07.max-connections', 'after %r: %d connections in existence, max_watermark is %d' % (op, len(ex), self.mx))
    for c in self.reg.channels:
      if len(self.unanswered(c)) > 1:
        self.v('C07.double-lend', 'after %r: connection #%d carries %d unanswered requests' % (op, c.serial, len(self.unanswered(c))))
    for r in self.reqs:
      if r['responses'] > 1:
        self.v('C07.duplicate-response', 'request %d received %d responses' % (r['rid'], r['responses']))
    # FIFO among requests that had to wait
    waited = [r['rid'] for r in self.reqs if r.get('was_queued')]
    order = [rid for rid in self.start_order if rid in waited]
    if order != sorted(order):
      self.v('C07.fifo', 'after %r: queued requests were started in order %r' % (op, order))
    for r in self.reqs:
      if r['state'] == 'queued':
        r['was_queued'] = True
    # max-waiters band, evaluated for the request that just arrived
    if name == 'Req' and quiescent and self.reqs[-1]['arrived_with'].get('quiescent'):
      r = self.reqs[-1]
      pre = r['arrived_with']
      if r['state'] == 'done' and r.get('outcome') == 'MaxWaitersError':
        if pre['entries'] < self.ql:
          self.v('C07.max-waiters', 'request %d failed with MaxWaitersError while only %d of max_queue_len=%d were queued'
                 % (r['rid'], pre['entries'], self.ql))
      elif r['state'] == 'queued' and pre['live_waiters'] >= self.ql:
        self.v('C07.max-waiters', 'request %d was queued although %d live waiters >= max_queue_len=%d'
               % (r['rid'], pre['live_waiters'], self.ql))
    if quiescent and pool.state != ChannelState.Closed:
      live = self.live_waiters()
      getting = [r for r in self.reqs if r['state'] in ('getting', 'new')]
      free = [c for c in ex if not self.unanswered(c) and not c.open_ars]
      if live and not getting and (free or len(ex) < self.mx):
        self.v('C07.work-conservation', 'after %r: request(s) %r wait in the queue while %d connection(s) are free and %d of max %d exist'
               % (op, [r['rid'] for r in live], len(free), len(ex), self.mx), leaked=len(ex) < self.mx)
      lost = [r for r in self.reqs if r['state'] == 'lost']
      if lost:
        self.v('C07.lost-request', 'after %r: request(s) %r are neither queued, lent nor answered' % (op, [r['rid'] for r in lost]))
    if quiescent:
      # traffic stopped (whatever state the pool is in)
      busy = [r for r in self.reqs if r['state'] in ('lent', 'queued', 'getting', 'new')]
      # (a connection made for the consumer's re-entrant request is that request's own business)
      mine = set(s for (ev, s, rid) in self.reg.request_log if rid == 9000)
      ex = [c for c in ex if c.serial not in mine]
      opening = any(c.open_ars for c in self.reg.channels)      # a connection whose open has not finished cannot be given back yet
      if not busy and not opening and len(ex) > max(self.mn, 0) and self.reqs:
        self.v('C07.retain', 'after %r: traffic stopped, %d connections retained, min_watermark is %d (pool %s)'
               % (op, len(ex), self.mn, 'closed' if pool.state == ChannelState.Closed else 'open'),
               pool_closed=pool.state == ChannelState.Closed)
    if pool.state == ChannelState.Closed and quiescent:
      for r in self.reqs:
        if r['state'] == 'queued':
          self.v('C07.close-waiters', 'after %r: pool is closed but waiting request %d got no response' % (op, r['rid']))
      for r in self.reqs:
        if r.get('was_queued') and r['state'] == 'done' and not r['timed_out'] and r['serial'] is None \
           and r.get('outcome') != 'ServiceClosedError':
          self.v('C07.close-waiters', 'waiting request %d was failed with %s, not ServiceClosedError' % (r['rid'], r.get('outcome')))

  def probe(self):
    """Capacity conservation: with all requests complete and the pool open, a burst of `max` requests must be
    served concurrently."""
    from scales.constants import ChannelState
    if self.viol or not self.lp.quiescent() or self.pool.state == ChannelState.Closed:
      return
    if any(r['state'] in ('lent', 'queued', 'getting', 'new') for r in self.reqs):
      return
    if any(c.open_ars for c in self.reg.channels):
      return
    if self.p.get('open_mode') == 'pending':
      self.reg.default_open = 'ok'
    n0 = len(self.reqs)
    for _ in range(self.mx):
      self.pre = {'live_waiters': 0, 'entries': len(self.pool._waiters), 'existing': len(self.existing()), 'pool_state': self.pool.state,
                  'quiescent': True}
      self._op_Req()
      vloop.run_ready()
    self._sync()
    lent = [r for r in self.reqs[n0:] if r['state'] == 'lent']
    conns = set(r['serial'] for r in lent)
    if len(lent) != self.mx or len(conns) != self.mx:
      self.v('C07.capacity', 'after all traffic completed, a burst of %d requests got %d connections (states %r): capacity leaked'
             % (self.mx, len(conns), [r['state'] + ':' + str(r.get('outcome', '')) for r in self.reqs[n0:]]))

  def key(self):
    pool = self.pool
    chans = tuple((c.state, len(self.unanswered(c)), min(c.close_calls, 1), len(c.open_ars), getattr(c, 'died', False),
                   c in list(pool._cache)) for c in self.reg.channels if c.close_calls == 0 or self.unanswered(c))
    reqs = tuple((r['state'], r['serial'] is not None, r.get('outcome'), r['timed_out'], r.get('was_queued', False))
                 for r in self.reqs if r['state'] != 'done')
    done = tuple(sorted((r.get('outcome'), r['timed_out']) for r in self.reqs if r['state'] == 'done'))
    wait = tuple(next((r['rid'] for r in self.reqs if r['stack'] is w[0]), -1) in [q['rid'] for q in self.live_waiters()]
                 for w in pool._waiters)
    ready = tuple(getattr(cb.callback, '__qualname__', type(cb.callback).__name__) for cb in self.lp._ready if cb.callback is not None)
    died = sum(1 for c in self.reg.channels if getattr(c, 'died', False))      # budget of the Die operation: part of the state
    return repr((pool.state, pool._current_size, len(pool._cache), wait, chans, reqs, done, ready, self.preempts, len(self.reqs), died))


def build(params, hist):
  world.reset()
  w = PoolWorld(params)
  for op in hist:
    if w.viol:
      break
    w.apply(op)
  return w


def expand(params, hist):
  w = build(params, hist)
  out = {'key': w.key(), 'children': [], 'violations': list(w.viol), 'builds': 1}
  if w.viol:
    return out
  for op in w.enabled():
    w2 = build(params, hist + [op])
    out['builds'] += 1
    k2 = w2.key()
    w2.probe()
    out['children'].append({'op': op, 'key': k2, 'violations': _dedup(w2.viol), 'terminal': bool(w2.viol)})
  return out


def _dedup(vs):
  seen = set()
  out = []
  for v in vs:
    if v['clause'] not in seen:
      seen.add(v['clause'])
      out.append(v)
  return out


def describe(params, hist):
  w = build(params, [])
  lines = ['config %r' % ({k: params[k] for k in ('min', 'max', 'qlen')},)]
  for i, op in enumerate(hist):
    w.apply(op)
    lines.append('%2d %-18s pool(state=%s size=%d cache=%d waiters=%d) conns=%s reqs=%s' % (
      i, op, w.pool.state, w.pool._current_size, len(w.pool._cache), len(w.pool._waiters),
      [(c.serial, c.state, len(w.unanswered(c)), 'closed' if c.close_calls else '') for c in w.reg.channels],
      [(r['rid'], r['state'], r.get('outcome', '')) for r in w.reqs]))
    for v in w.viol:
      lines.append('   !! %s %s' % (v['clause'], v['message']))
    if w.viol:
      break
  if not w.viol:
    w.probe()
    for v in w.viol:
      lines.append('   !! (probe) %s %s' % (v['clause'], v['message']))
  return lines
