"""Independent codec for the parts of the Kafka 0.8 (v0) wire protocol that scales speaks, written from
the protocol guide.  Nothing here imports scales.

  request   = size:i32 | api_key:i16 | api_version:i16 | correlation_id:i32 | client_id:string | body
  string    = len:i16 | bytes            bytes = len:i32 | bytes  (len -1 = null)
  produce   = required_acks:i16 | timeout:i32 | ntopics:i32 ( topic:string | nparts:i32 ( partition:i32 | set_size:i32 | message set ) )
  message set = ( offset:i64 | message_size:i32 | message )*        message = crc:u32 | magic:i8 | attributes:i8 | key:bytes | value:bytes
  crc       = CRC32 over magic .. end of value
  produce response  = correlation_id:i32 | ntopics:i32 ( topic:string | nparts:i32 ( partition:i32 | error:i16 | offset:i64 ) )
  metadata response = correlation_id:i32 | nbrokers:i32 ( node:i32 | host:string | port:i32 )
                      | ntopics:i32 ( error:i16 | name:string | nparts:i32 ( error:i16 | id:i32 | leader:i32 | replicas:[i32] | isr:[i32] ) )
"""
import struct
import zlib


class KafkaFormatError(Exception):
  pass


class R(object):
  def __init__(self, data):
    self.d = data
    self.o = 0

  def take(self, n):
    if n < 0 or self.o + n > len(self.d):
      raise KafkaFormatError('need %d bytes at offset %d, have %d' % (n, self.o, len(self.d) - self.o))
    b = self.d[self.o:self.o + n]
    self.o += n
    return b

  def i8(self):
    return struct.unpack('>b', self.take(1))[0]

  def i16(self):
    return struct.unpack('>h', self.take(2))[0]

  def i32(self):
    return struct.unpack('>i', self.take(4))[0]

  def u32(self):
    return struct.unpack('>I', self.take(4))[0]

  def i64(self):
    return struct.unpack('>q', self.take(8))[0]

  def string(self):
    n = self.i16()
    return None if n < 0 else self.take(n)

  def bytes_(self):
    n = self.i32()
    return None if n < 0 else self.take(n)

  def left(self):
    return len(self.d) - self.o


def parse_request(frame):
  """frame = everything the client wrote for one request (including the size prefix)."""
  r = R(frame)
  size = r.i32()
  if size != r.left():
    raise KafkaFormatError('size prefix %d, %d bytes follow' % (size, r.left()))
  out = {'api_key': r.i16(), 'api_version': r.i16(), 'correlation_id': r.i32(), 'client_id': r.string()}
  out['body'] = r.take(r.left())
  return out


def parse_produce(body):
  r = R(body)
  out = {'acks': r.i16(), 'timeout': r.i32(), 'topics': []}
  for _ in range(r.i32()):
    topic = r.string()
    parts = []
    for _ in range(r.i32()):
      pid = r.i32()
      set_size = r.i32()
      ms = R(r.take(set_size))
      msgs = []
      while ms.left():
        offset = ms.i64()
        msize = ms.i32()
        m = R(ms.take(msize))
        crc = m.u32()
        rest = m.d[m.o:]
        magic = m.i8()
        attrs = m.i8()
        key = m.bytes_()
        value = m.bytes_()
        if m.left():
          raise KafkaFormatError('%d trailing bytes inside a message' % m.left())
        msgs.append({'offset': offset, 'crc_ok': (zlib.crc32(rest) & 0xffffffff) == crc, 'magic': magic, 'attributes': attrs,
                     'key': key, 'value': value})
      parts.append({'partition': pid, 'messages': msgs})
    out['topics'].append({'topic': topic, 'partitions': parts})
  if r.left():
    raise KafkaFormatError('%d trailing bytes after the produce request' % r.left())
  return out


def s16(b):
  return struct.pack('>h', len(b)) + b


def produce_response(corr, topics):
  """topics: [(name, [(partition, error, offset)])]"""
  out = struct.pack('>ii', corr, len(topics))
  for name, parts in topics:
    out += s16(name) + struct.pack('>i', len(parts))
    for (p, e, o) in parts:
      out += struct.pack('>ihq', p, e, o)
  return out


def metadata_response(corr, brokers, topics):
  """brokers: [(node, host, port)]; topics: [(err, name, [(perr, pid, leader, replicas, isr)])]"""
  out = struct.pack('>ii', corr, len(brokers))
  for (n, h, p) in brokers:
    out += struct.pack('>i', n) + s16(h) + struct.pack('>i', p)
  out += struct.pack('>i', len(topics))
  for (e, name, parts) in topics:
    out += struct.pack('>h', e) + s16(name) + struct.pack('>i', len(parts))
    for (pe, pid, leader, reps, isr) in parts:
      out += struct.pack('>hii', pe, pid, leader)
      out += struct.pack('>i', len(reps)) + b''.join(struct.pack('>i', x) for x in reps)
      out += struct.pack('>i', len(isr)) + b''.join(struct.pack('>i', x) for x in isr)
  return out


def frame(payload):
  return struct.pack('>i', len(payload)) + payload
