"""Independent codec for the (Thrift)Mux wire format, written from the protocol description:

  frame     = size:i32 (big endian, counts everything after itself) | type:i8 | tag:u24 | body
  Tdispatch = nctx:i16 (klen:i16 key vlen:i16 value)*nctx | dstlen:i16 dst | ndtab:i16 (slen:i16 s dlen:i16 d)* | payload
  Rdispatch = status:i8 | nctx:i16 (klen:i16 key vlen:i16 value)*nctx | payload
  Tping / Rping = empty body
  Tdiscarded (tag 0) = discarded tag:u24 | reason (utf-8)
  Rerr      = reason (utf-8)

Nothing here imports scales.
"""
import struct

T_DISPATCH, R_DISPATCH = 2, -2
T_PING, R_PING = 65, -65
T_DISCARDED = 66
R_ERR, BAD_R_ERR = -128, 127
OK, ERROR, NACK = 0, 1, 2


class FrameError(Exception):
  pass


def split_frames(buf):
  """Consume complete frames from bytearray `buf`; returns list of frame bodies (without size prefix)."""
  out = []
  while len(buf) >= 4:
    (n,) = struct.unpack('>i', bytes(buf[:4]))
    if n < 4:
      raise FrameError('frame size %d < 4' % n)
    if len(buf) < 4 + n:
      break
    out.append(bytes(buf[4:4 + n]))
    del buf[:4 + n]
  return out


def decode_header(frame):
  (t,) = struct.unpack('>b', frame[0:1])
  tag = (frame[1] << 16) | (frame[2] << 8) | frame[3]
  return t, tag, frame[4:]


def _read_ctx(body, off):
  (n,) = struct.unpack('>h', body[off:off + 2])
  off += 2
  ctx = []
  for _ in range(n):
    (kl,) = struct.unpack('>h', body[off:off + 2])
    off += 2
    k = body[off:off + kl]
    if len(k) != kl:
      raise FrameError('context key truncated')
    off += kl
    (vl,) = struct.unpack('>h', body[off:off + 2])
    off += 2
    v = body[off:off + vl]
    if len(v) != vl:
      raise FrameError('context value truncated')
    off += vl
    ctx.append((k, v))
  return ctx, off


def decode_tdispatch(body):
  ctx, off = _read_ctx(body, 0)
  (dl,) = struct.unpack('>h', body[off:off + 2])
  off += 2
  dst = body[off:off + dl]
  off += dl
  (nd,) = struct.unpack('>h', body[off:off + 2])
  off += 2
  dtab = []
  for _ in range(nd):
    (sl,) = struct.unpack('>h', body[off:off + 2])
    off += 2
    s = body[off:off + sl]
    off += sl
    (tl,) = struct.unpack('>h', body[off:off + 2])
    off += 2
    t = body[off:off + tl]
    off += tl
    dtab.append((s, t))
  return {'contexts': ctx, 'dst': dst, 'dtab': dtab, 'payload': body[off:]}


def decode_tdiscarded(body):
  if len(body) < 3:
    raise FrameError('Tdiscarded body shorter than a tag')
  tag = (body[0] << 16) | (body[1] << 8) | body[2]
  return {'tag': tag, 'reason': body[3:]}


def frame(t, tag, body=b''):
  hdr = struct.pack('>b', t) + bytes([(tag >> 16) & 0xff, (tag >> 8) & 0xff, tag & 0xff])
  return struct.pack('>i', len(hdr) + len(body)) + hdr + body


def encode_ctx(ctx):
  out = struct.pack('>h', len(ctx))
  for k, v in ctx:
    out += struct.pack('>h', len(k)) + k + struct.pack('>h', len(v)) + v
  return out


def rdispatch(tag, status, payload, ctx=()):
  return frame(R_DISPATCH, tag, struct.pack('>b', status) + encode_ctx(list(ctx)) + payload)


def rping(tag=1):
  return frame(R_PING, tag)


def rerr(tag, why, bad=False):
  return frame(BAD_R_ERR if bad else R_ERR, tag, why)
