"""C02 - a call only ever receives the reply to its own request.  (Engine S, vt/stackharness.py)"""
from .c01 import run, RULE, ASSUME

PROP = 'C02'
PREFIXES = ('C02.', 'STACK.')
FAULTS = ['drop', 'eof', 'reset', 'refuse']


def scenarios(tier):
  out = []
  # serial connections: one pooled connection reused by successive calls; replies delayed past the caller's timeout
  out.append(('thrift pooled connection reused, 3 calls, short timeouts',
              {'stack': 'thrift', 'endpoints': 1, 'ops': [('call', 'p0', 0.1025), ('call', 'p1', 0.2025), ('call', 'p2')],
               'pool': {'max_watermark': 1, 'max_queue_len': 2}, 'faults': FAULTS, 'timeout': 0.5025}))
  out.append(('thrift pooled connection reused, partial writes under back-pressure',
              {'stack': 'thrift', 'endpoints': 1, 'ops': [('call', 'w0', 0.1025), ('call', 'w1'), ('call', 'w2')],
               'pool': {'max_watermark': 1, 'max_queue_len': 2}, 'faults': ['block-partial', 'drop'], 'timeout': 0.5025}))
  out.append(('mux partial writes under back-pressure',
              {'stack': 'mux', 'endpoints': 1, 'ops': [('call', 'v0', 0.1025), ('call', 'v1'), ('call', 'v2')],
               'faults': ['block-partial', 'drop'], 'timeout': 0.5025}))
  out.append(('mux long back-pressure in the middle of a frame while periodic pings come due',
              {'stack': 'mux', 'endpoints': 1, 'ops': [('call', 'L0', 50.0025), ('call', 'L1', 50.0025)], 'faults': ['block-long'],
               'timeout': 50.0025, 'horizon': 45.0, '_bound': 2, 'max_steps': 900}))
  out.append(('thrift 2 endpoints, 3 concurrent calls',
              {'stack': 'thrift', 'endpoints': 2, 'ops': [('call', 'q0', 0.1025), ('call', 'q1'), ('call', 'q2', 0.2025)], 'open_timeout': 0,
               'faults': FAULTS, 'timeout': 0.5025}))
  # multiplexed: replies in any order, replies to timed-out tags, tag reuse
  out.append(('mux 1 endpoint, 4 calls, replies in any order / late / lost',
              {'stack': 'mux', 'endpoints': 1, 'ops': [('call', 'm0', 0.1025), ('call', 'm1'), ('call', 'm2', 0.2025), ('call', 'm3')],
               'faults': FAULTS, 'timeout': 0.5025}))
  out.append(('mux 2 endpoints, 3 calls issued while opening',
              {'stack': 'mux', 'endpoints': 2, 'ops': [('call', 'n0', 0.1025), ('call', 'n1'), ('call', 'n2')], 'open_timeout': 0,
               'faults': FAULTS, 'timeout': 0.5025}))
  # two connections alive in one process (state a class shares between connections shows here): tags released on one
  # connection, then concurrent calls on the other
  out.append(('mux 2 endpoints, 4 calls, one completes before the others overlap',
              {'stack': 'mux', 'endpoints': 2, 'ops': [('call', 'u0'), ('call', 'u1'), ('call', 'u2'), ('call', 'u3')],
               'faults': ['drop'], 'timeout': 0.5025}))
  # two connections, replies arriving a few bytes at a time (reads on the two connections interleave)
  for stack in ('thrift', 'mux'):
    out.append(('%s 2 endpoints, 3 concurrent calls, the kernel hands out 4 bytes per recv' % stack,
                {'stack': stack, 'endpoints': 2, 'ops': [('burst', 2), ('call', 'k0'), ('call', 'k1'), ('call', 'k2')],
                 'faults': ['split'], 'timeout': 0.5025, 'max_recv': 4, '_bound': 3}))
  # tags beyond 16 bits (the tag counter jumps as if the tags in between were held by requests that were never answered)
  out.append(('mux 1 endpoint, 3 calls, a tag above 65535 next to tag 2',
              {'stack': 'mux', 'endpoints': 1, 'ops': [('call', 'g0', 0.2025), ('call', 'g1'), ('call', 'g2')],
               'faults': ['drop'], 'timeout': 0.5025, 'tag_jump': [2, 65538]}))
  # a server that honours Tdiscarded (acknowledges with Rdiscarded and never sends the reply): the tag is used again at once
  out.append(('mux 1 endpoint, the server acknowledges discards; a timed-out call\'s tag is used again while another call times out',
              {'stack': 'mux', 'endpoints': 1, 'ops': [('call', 'a1', 0.1025), ('call', 'a2', 0.2025), ('at', 0.15), ('call', 'b0')],
               'faults': ['drop'], 'timeout': 0.5025, 'peer_script': {'ack_discards': True}, '_bound': 3}))
  if tier == 'thorough':
    out.append(('thrift pooled connection, split replies',
                {'stack': 'thrift', 'endpoints': 1, 'ops': [('call', 's0', 0.1025), ('call', 's1')],
                 'pool': {'max_watermark': 1, 'max_queue_len': 2}, 'faults': FAULTS + ['split'], 'timeout': 0.5025}))
    out.append(('mux split replies',
                {'stack': 'mux', 'endpoints': 1, 'ops': [('call', 't0', 0.1025), ('call', 't1'), ('call', 't2')],
                 'faults': FAULTS + ['split'], 'timeout': 0.5025}))
  pre = []
  for name, params in out[:3]:
    q = dict(params)
    q['max_preempt'] = 1
    q['_bound'] = 2 if tier == 'quick' else 3
    pre.append((name + ' [+1 preemption]', q))
  return out + pre


def transport_scenarios(tier):
  """The mux transport driven directly (harness of C11): what the stacks of the public builders never do to a transport, but its
  owners may - e.g. Open() called again while requests are unanswered."""
  return [('mux transport: Open() called again while a request is unanswered',
           {'ops': [['req', 'a'], ['open'], ['req', 'b'], ['req', 'c']], 'max_adversarial': 0}, 2 if tier == 'quick' else 3)]


def main(tier, seed):
  from .. import explore
  from ..report import Report
  from . import c01
  rep = Report(PROP, tier, seed, 'model_checking')
  pool = explore.make_pool()
  bound = 3 if tier == 'quick' else 4
  try:
    for name, params in scenarios(tier):
      b = params.pop('_bound', bound)
      agg = explore.explore('vt.stackharness', 'run_exec', params, b, seed=seed, pool=pool, split_levels=1 if b <= 2 else 2)
      agg.violations = [v for v in agg.violations if v['clause'].startswith(PREFIXES)]
      rep.add_explore(name, agg, b, params=params)
    for name, params, b in transport_scenarios(tier):
      agg = explore.explore('vt.checks.c11', 'run_exec', params, b, seed=seed, pool=pool, split_levels=1 if b <= 2 else 2)
      agg.violations = [v for v in agg.violations if v['clause'].startswith('C02.')]
      rep.add_explore(name, agg, b, params=params)
  finally:
    pool.close()
    pool.join()
  rep.assumptions += ASSUME + ['unique argument per call; the peer echoes it, so a reply identifies its request']
  return rep.finish(rule=RULE, exhaustive=True)


def replay(path):
  import json
  rp = json.load(open(path)).get('replay', {})
  if 'stack' not in rp.get('params', {}):
    from . import c11
    return c11.replay(path)
  from . import c01
  return c01.replay(path)
