"""C13 - ThriftMux frames are byte-exact for every message, tag and context.  (Engine E through the real sinks)

ClientIdInterceptorSink -> ThriftMuxMessageSerializerSink -> thriftmux SocketTransportSink over FakeSock.
Everything the client writes is decoded by the independent codec (vt/refcodec/mux.py) and by the
generated Thrift Processor; replies are produced by the independent codec and pushed through the real
receive path.  Header writer/reader: every tag byte pattern x every type byte (quick) / all 2^24 tags x
reply types (thorough).
"""
import itertools
import struct

from .. import explore, peers, simnet, stubs, vloop, world
from ..refcodec import mux as M
from ..report import Report
from .c08 import hello

PROP = 'C13'
STRS = ['', 'a', 'é', '日本', 'k' * 300]
CLIENT_IDS = [None, 'c', 'çlient']
ARGS = ['', 'x', 'é日', 'y' * 300]
DEADLINE_KEY = b'com.twitter.finagle.Deadline'
CLIENTID_KEY = b'com.twitter.finagle.thrift.ClientIdContext'


SMALL_IO = [None, None]      # (bytes per recv call, bytes per send call) the simulated kernel moves at most; None = unlimited


class ScriptPeer(object):
  """Mux peer: answers Tping; records every frame; replies to dispatches are produced by the harness."""
  ordered = False

  def __init__(self, net, conn):
    self.net = net
    self.conn = conn
    self.buf = bytearray()
    self.frames = []
    self.errors = []
    self.raw = bytearray()

  def feed(self, data):
    self.raw += data
    self.buf += data
    try:
      frames = M.split_frames(self.buf)
    except M.FrameError as e:
      self.errors.append(str(e))
      return
    for fr in frames:
      t, tag, body = M.decode_header(fr)
      self.frames.append((t, tag, body, fr))
      if t == M.T_PING:
        self.conn.rx += M.rping(tag)
        self.conn.wake()

  def on_client_close(self):
    pass


class Chain(object):
  def __init__(self, client_id, iface=None):
    from scales.constants import SinkProperties
    from scales.loadbalancer.zookeeper import Endpoint
    from scales.thriftmux.sink import ClientIdInterceptorSink, ThriftMuxMessageSerializerSink, SocketTransportSink
    self.lp = vloop.loop()
    self.net = simnet.new_net()
    self.net.max_recv, self.net.max_send = SMALL_IO
    self.H = hello()
    world.SHIMS['thriftmux'].randint_domain = lambda a, b: [a]
    self.net.add_endpoint('h0', 1000, lambda net, c: ScriptPeer(net, c))
    provs = []
    if client_id is not None:
      provs.append(ClientIdInterceptorSink.Builder(client_id=client_id))
    provs.append(ThriftMuxMessageSerializerSink.Builder())
    provs.append(SocketTransportSink.Builder())
    for a, b in zip(provs, provs[1:]):
      a.next_provider = b
    props = {SinkProperties.Endpoint: Endpoint('h0', 1000), SinkProperties.Label: 'svc',
             SinkProperties.ServiceInterface: iface or self.H.Iface}
    self.iface = iface or self.H.Iface
    self.top = provs[0].CreateSink(props)
    s = self.top
    while s.next_sink is not None:
      s = s.next_sink
    self.transport = s
    self.term = stubs.make_terminal_class()()
    import gevent
    gevent.spawn(lambda: self.transport.Open().wait())
    self.pump()
    self.conn = self.net.conns[-1]
    self.peer = self.conn.peer

  def pump(self):
    for _ in range(50):
      vloop.run_ready()
      evs = self.net.enabled_events()
      if not evs:
        break
      self.net.fire(evs[0], 'ok')
    vloop.run_ready()

  def call(self, name, arg, props, deadline, with_event=False, method='hi'):
    from scales.message import MethodCallMessage, Deadline
    from scales.observable import Observable
    from scales.sink import ClientMessageSinkStack
    msg = MethodCallMessage(self.iface, method, (arg,) if method == 'hi' else tuple(arg), {})
    for k, v in props.items():
      msg.properties[k] = v
    if deadline is not None:
      msg.properties[Deadline.KEY] = deadline
    evt = None
    if with_event:
      evt = Observable()
      msg.properties[Deadline.EVENT_KEY] = evt
    frames, st = self.send(name, msg)
    return frames, evt, st

  def send(self, name, msg):
    from scales.sink import ClientMessageSinkStack
    st = ClientMessageSinkStack()
    st.Push(self.term, name)
    n0 = len(self.peer.frames)
    self.top.AsyncProcessRequest(st, msg, None, {})
    self.pump()
    return self.peer.frames[n0:], st


def decode_thrift_call(H, payload):
  log = []
  reply, hdr = peers.thrift_process(H.Processor, peers.EchoHandler(log), payload)
  return hdr, log, reply


def check_requests(client_ids, ctx_list, deadlines, args):
  """One chain per client id; every (context dict, deadline, arg).  Returns stats + violations."""
  viol = []
  n = 0
  keys = set()
  sample = None
  for cid in client_ids:
    world.reset()
    ch = Chain(cid)
    H = ch.H
    expect_tag = 2
    for props in ctx_list:
      for dl in deadlines:
        for arg in args:
          n += 1
          name = 'r%d' % n
          raw0 = len(ch.peer.raw)
          frames, evt, st = ch.call(name, arg, dict(props), (vloop.EPOCH + dl) if dl is not None else None)
          case = {'client_id': cid, 'properties': props, 'deadline': dl, 'arg': arg[:20] + ('...' if len(arg) > 20 else '')}
          keys.add((cid, tuple(sorted(props.items())), dl, arg))
          if sample is None and props and dl:
            sample = case
          bad = None
          resp = ch.term.responses.get(name)
          if ch.peer.errors:
            bad = ('C13.framing', 'peer could not split the byte stream into frames: %s' % ch.peer.errors[0])
          elif len(frames) != 1:
            bad = ('C13.framing', 'expected exactly one frame, peer decoded %d (client-side response: %r)' % (len(frames), resp and resp[0][1].error))
          else:
            t, tag, body, fr = frames[0]
            written = bytes(ch.peer.raw[raw0:])
            (size,) = struct.unpack('>i', written[:4])
            if size != len(written) - 4:
              bad = ('C13.length', 'length prefix %d, %d bytes follow' % (size, len(written) - 4))
            elif t != M.T_DISPATCH:
              bad = ('C13.type', 'type byte %d, expected Tdispatch' % t)
            elif not (2 <= tag < (1 << 24)):
              bad = ('C13.tag', 'tag %d' % tag)
            else:
              try:
                d = M.decode_tdispatch(body)
              except Exception as e:  # noqa
                d = None
                bad = ('C13.dispatch-body', 'independent decoder failed: %r' % (e,))
              if d is not None:
                want = dict((k.encode('utf-8'), v.encode('utf-8')) for k, v in props.items())
                if cid is not None:
                  want[CLIENTID_KEY] = cid.encode('utf-8')
                got = dict(d['contexts'])
                got_dl = got.pop(DEADLINE_KEY, None)
                if len(d['contexts']) != len(set(k for k, _ in d['contexts'])):
                  bad = ('C13.contexts', 'duplicate context keys %r' % (d['contexts'],))
                elif got != want:
                  bad = ('C13.contexts', 'decoded contexts %r, supplied %r' % (sorted(got.items()), sorted(want.items())))
                elif (dl is not None) != (got_dl is not None) or (got_dl is not None and len(got_dl) != 16):
                  bad = ('C13.deadline-context', 'deadline %r -> deadline context %r' % (dl, got_dl))
                elif d['dst'] != b'' or d['dtab'] != []:
                  bad = ('C13.dest', 'destination %r / dtab %r not empty' % (d['dst'], d['dtab']))
                else:
                  try:
                    hdr, log, _ = decode_thrift_call(H, d['payload'])
                    if hdr[0] != 'hi' or log != [('hi', arg)]:
                      bad = ('C13.payload', 'embedded Thrift call decodes to %r %r, expected hi(%r)' % (hdr, log, arg[:30]))
                  except Exception as e:  # noqa
                    bad = ('C13.payload', 'embedded Thrift call does not decode: %r' % (e,))
            # answer it so that the tag is recycled
            ch.conn.rx += M.rdispatch(tag, M.OK, b'')
            ch.conn.wake()
            ch.pump()
          if bad:
            viol.append({'clause': bad[0], 'message': bad[1] + '; case %r' % (case,), 'sig': {'nonascii': any(ord(c) > 127 for s in list(props) + list(props.values()) + [cid or ''] for c in s)},
                         'replay': {'case': case}})
            if len(viol) > 6:
              return {'n': n, 'keys': len(keys), 'viol': viol, 'sample': sample}
            # a broken frame may have desynchronised the stream: start over with a fresh chain
            world.reset()
            ch = Chain(cid)
  return {'n': n, 'keys': len(keys), 'viol': viol, 'sample': sample}


def check_redispatch():
  """One message object dispatched more than once (what a retry layer does), its caller properties changed in between, and a sink
  above the chain that reads the message's public properties before the client id is added: every frame must carry the contexts
  the message has at the moment it is sent."""
  from scales.message import MethodCallMessage
  viol = []
  n = 0
  steps = [{'a': 'x'}, {'a': 'y'}, {'a': 'y', 'b': 'é'}, {'b': 'é'}, {}]
  for cid in (None, 'c'):
    for peek in (False, True):
      world.reset()
      ch = Chain(cid)
      msg = MethodCallMessage(ch.iface, 'hi', ('arg',), {})
      tagrel = None
      for i, props in enumerate(steps):
        n += 1
        for k in [k for k in list(msg.properties.keys()) if k in ('a', 'b')]:
          del msg.properties[k]
        msg.properties.update(props)
        if peek:
          list(msg.public_properties.items())      # e.g. a logging / tracing sink above the chain
        frames, st = ch.send('m%d' % i, msg)
        ds = [f for f in frames if f[0] == M.T_DISPATCH]
        bad = None
        if len(ds) != 1:
          bad = 'peer decoded %d Tdispatch frames' % len(ds)
        else:
          try:
            d = M.decode_tdispatch(ds[0][2])
            want = dict((k.encode('utf-8'), v.encode('utf-8')) for k, v in props.items())
            if cid is not None:
              want[CLIENTID_KEY] = cid.encode('utf-8')
            got = dict(d['contexts'])
            got.pop(DEADLINE_KEY, None)
            if got != want:
              bad = 'decoded contexts %r, the message carries %r' % (sorted(got.items()), sorted(want.items()))
          except Exception as e:  # noqa
            bad = 'Tdispatch body does not decode: %r' % (e,)
          ch.conn.rx += M.rdispatch(ds[0][1], M.OK, b'')
          ch.conn.wake()
          ch.pump()
        if bad:
          viol.append({'clause': 'C13.contexts', 'message': 'message object sent for the %d. time (client id %r, properties read beforehand: %s): %s'
                       % (i + 1, cid, peek, bad), 'sig': {'redispatch': True}})
          break
  return {'n': n, 'keys': n, 'viol': viol, 'sample': {'redispatch_steps': steps}}


def check_requests_debug_logging():
  """The frames must not depend on the logging configuration: a subset of the request product with DEBUG enabled on every
  scales logger (records go to a null handler)."""
  import logging
  root = logging.getLogger('scales')
  old_level, old_prop = root.level, root.propagate
  h = logging.NullHandler()
  logging.disable(logging.NOTSET)
  root.setLevel(logging.DEBUG)
  root.addHandler(h)
  root.propagate = False
  try:
    ctxs = [{}, {'a': 'x'}, {'é': '日本', 'k' * 300: ''}]
    res = check_requests([None, 'çlient'], ctxs, [None, 0.5025], ARGS)
  finally:
    root.removeHandler(h)
    root.setLevel(old_level)
    root.propagate = old_prop
    logging.disable(logging.CRITICAL)
  for v in res['viol']:
    v['message'] = 'with DEBUG logging enabled: ' + v['message']
  res['sample'] = {'debug_logging_cases': res['n']}
  return res


def check_small_io():
  """The same frames when the kernel moves only a few bytes per call: recv hands out at most 3 bytes, send() takes at most 7
  (sendall loops): requests, discards and every reply shape once more."""
  out = {'n': 0, 'keys': 0, 'viol': [], 'sample': {'small_io': [3, 7]}}
  SMALL_IO[:] = [3, 7]
  parts = []
  try:
    for fn, args in ((check_requests, ([None, 'c'], [{}, {'a': 'x'}, {'é': '日本'}], [None, 0.5025], ARGS)), (check_discards, (6,)),
                     (check_replies, ())):
      try:
        parts.append(fn(*args))
      except Exception as e:  # noqa  (e.g. the transport never gets through its handshake and the harness cannot go on)
        parts.append({'n': 1, 'keys': 1, 'viol': [{'clause': 'C13.framing', 'sig': {'small_io': True},
                                                   'message': '%s could not be carried out: %s: %s' % (fn.__name__, type(e).__name__, str(e)[:200])}]})
  finally:
    SMALL_IO[:] = [None, None]
  for r in parts:
    out['n'] += r['n']
    out['keys'] += r['keys']
    for v in r['viol']:
      v['message'] = 'with at most 3 bytes per recv and 7 per send: ' + v['message']
      out['viol'].append(v)
  return out


def check_unencodable():
  """Caller properties whose value is not text (None, a number, bytes, a list), alone and next to a text property: the call may
  be rejected, but whatever is written to the connection must still be a well-formed Tdispatch for that call."""
  viol = []
  n = 0
  odd = [None, 0, 5, b'raw', ['l'], 1.5]
  fresh_ctx = {}
  for cid in (None, 'c'):
    world.reset()
    fch = Chain(cid)
    ff, _, _ = fch.call('fresh', 'arg', {}, None)
    fresh_ctx[cid] = [M.decode_tdispatch(f[2])['contexts'] for f in ff if f[0] == M.T_DISPATCH]
  for cid in (None, 'c'):
    for v in odd:
      for extra in ({}, {'a': 'x'}, {'zz': 'y'}):
        for key in ('k', 'é'):
          n += 1
          world.reset()
          ch = Chain(cid)
          props = dict(extra)
          props[key] = v
          raw0 = len(ch.peer.raw)
          frames, evt, st = ch.call('u%d' % n, 'arg', props, (vloop.EPOCH + 0.5025) if (n % 2) else None)
          written = bytes(ch.peer.raw[raw0:])
          resp = ch.term.responses.get('u%d' % n)
          bad = None
          if ch.peer.errors:
            bad = 'the peer cannot split what was written into frames: %s' % ch.peer.errors[0]
          elif not written:
            if not resp or resp[0][1].error is None:
              bad = 'nothing was written and the caller was not given an error (%r)' % (resp,)
          else:
            ds = [f for f in frames if f[0] == M.T_DISPATCH]
            if len(ds) != 1:
              bad = 'wrote %d bytes that are not exactly one Tdispatch (%d frames)' % (len(written), len(frames))
            else:
              try:
                d = M.decode_tdispatch(ds[0][2])
                hdr, log, _ = decode_thrift_call(ch.H, d['payload'])
                if log != [('hi', 'arg')] or d['dst'] != b'' or d['dtab'] != []:
                  bad = 'the Tdispatch decodes to dst=%r dtab=%r call=%r' % (d['dst'], d['dtab'], log)
              except Exception as e:  # noqa
                bad = 'the Tdispatch body does not decode: %r' % (e,)
          if not bad:
            # the next, ordinary call on the same client (no properties, no deadline) is framed exactly as on a fresh client
            f2, _, _ = ch.call('n%d' % n, 'arg', {}, None)
            ctx2 = [M.decode_tdispatch(f[2])['contexts'] for f in f2 if f[0] == M.T_DISPATCH]
            if ctx2 != fresh_ctx[cid]:
              bad = ('the NEXT call on the same client (no properties, no deadline) was framed with contexts %r; a fresh client frames it with %r'
                     % (ctx2, fresh_ctx[cid]))
          if bad:
            viol.append({'clause': 'C13.dispatch-body', 'message': 'caller property %r=%r (others %r, client id %r): %s' % (key, v, extra, cid, bad),
                         'sig': {'unencodable': True}})
            if len(viol) >= 3:
              return {'n': n, 'keys': n, 'viol': viol, 'sample': None}
  return {'n': n, 'keys': n, 'viol': viol, 'sample': {'unencodable_values': [repr(x) for x in odd]}}


def check_discards(n_requests):
  """Requests whose deadline fires after the frame was written: a Tdiscarded naming the tag must follow."""
  viol = []
  world.reset()
  ch = Chain('c')
  n = 0
  for i in range(n_requests):
    n += 1
    frames, evt, st = ch.call('d%d' % i, 'x', {}, vloop.EPOCH + 5.0025, with_event=True)
    if len(frames) != 1:
      viol.append({'clause': 'C13.framing', 'message': 'request %d: %d frames' % (i, len(frames)), 'sig': {}})
      break
    tag = frames[0][1]
    n0 = len(ch.peer.frames)
    raw0 = len(ch.peer.raw)
    evt.Set(True)
    ch.pump()
    new = ch.peer.frames[n0:]
    written = bytes(ch.peer.raw[raw0:])
    ok = len(new) == 1 and new[0][0] == M.T_DISCARDED
    if ok:
      (size,) = struct.unpack('>i', written[:4])
      try:
        d = M.decode_tdiscarded(new[0][2])
        ok = size == len(written) - 4 and d['tag'] == tag and d['reason'] == b'Client timeout' and \
          new[0][2] == bytes([(tag >> 16) & 255, (tag >> 8) & 255, tag & 255]) + d['reason']
      except M.FrameError:
        ok = False
    if not ok:
      viol.append({'clause': 'C13.discard', 'message': 'after the deadline of the request with tag %d fired the peer decoded %r'
                   % (tag, [(f[0], f[1], f[2]) for f in new]), 'sig': {}})
      break
    # leave every second request unanswered so that tags grow
    if i % 2 == 0:
      ch.conn.rx += M.rdispatch(tag, M.OK, b'')
      ch.conn.wake()
      ch.pump()
  return {'n': n, 'keys': n, 'viol': viol, 'sample': None}


def check_interleave():
  """Frames stay whole when periodic traffic comes due while a frame is only partly written: a 300-byte dispatch is blocked
  after 6 bytes by back-pressure, 31 s pass (the 30 s ping comes due), the connection drains; every order in which blocked
  writers proceed is enumerated.  The peer must be able to split the stream into exactly the frames that were sent."""
  viol = []
  n = 0
  stack = [[]]
  lp = vloop.loop()
  while stack:
    pfx = stack.pop()
    world.reset()
    chn = Chain('c')
    ch = world.Chooser(pfx)
    world.set_chooser(ch)
    conn = chn.conn
    conn.write_blocked = True
    conn.block_after = 6
    arg = 'y' * 300
    frames0 = len(chn.peer.frames)
    chn.call('big', arg, {}, None)
    target = lp.now() + 31.0
    while True:
      vloop.run_ready()
      t = lp.next_timer()
      if t is None or t.at > target:
        break
      lp.fire(t)
    lp.advance_to(target)
    vloop.run_ready()
    conn.write_blocked = False
    conn.wake()
    chn.pump()
    world.set_chooser(None)
    for i in range(len(pfx), len(ch.points)):
      for alt in range(1, len(ch.points[i].labels)):
        stack.append(ch.choices[:i] + [alt])
    n += 1
    got = chn.peer.frames[frames0:]
    kinds = sorted(f[0] for f in got)
    bad = None
    if chn.peer.errors:
      bad = 'the peer cannot split the byte stream into frames: %s' % chn.peer.errors[0]
    elif [k for k in kinds if k not in (M.T_DISPATCH, M.T_PING)] or kinds.count(M.T_DISPATCH) != 1:
      bad = 'the peer decoded frames of types %r, expected one Tdispatch and pings' % (kinds,)
    elif len(chn.peer.buf):
      bad = ('every write has completed, yet the byte stream ends inside a frame: %d bytes %r follow the last complete frame (frames decoded: %r)'
             % (len(chn.peer.buf), bytes(chn.peer.buf[:16]), kinds))
    elif kinds.count(M.T_PING) != 1:
      bad = 'the 30 s ping came due once while the dispatch was blocked, but the peer decoded %d Tping frames (types %r)' % (kinds.count(M.T_PING), kinds)
    else:
      d = [f for f in got if f[0] == M.T_DISPATCH][0]
      try:
        body = M.decode_tdispatch(d[2])
        hdr, log, _ = decode_thrift_call(chn.H, body['payload'])
        if log != [('hi', arg)]:
          bad = 'the dispatch decodes to %r' % (log,)
      except Exception as e:  # noqa
        bad = 'the dispatch does not decode: %r' % (e,)
    if bad:
      viol.append({'clause': 'C13.framing', 'message': 'a frame blocked after 6 bytes while a ping came due: %s (writer order %r)'
                   % (bad, ch.trace()), 'sig': {'interleave': True}})
      break
  return {'n': n, 'keys': n, 'viol': viol, 'sample': {'interleave_runs': n}}


def check_two_services():
  """Two ThriftMux clients for two different interfaces (same method names, different signatures, both with service
  inheritance) alive in one process: every ordered pair of calls; the Tdispatch body must end with exactly the Thrift call
  that was supplied, encoded with its own interface's argument struct and message type."""
  from thrift.Thrift import TMessageType
  from .c14 import two_service_cases, vsvc, wsvc, Handler
  VSvc, VBase, T = vsvc()
  WSvc, WBase = wsvc()
  vc, wc = two_service_cases()
  viol = []
  n = 0
  for first in vc + wc:
    for second in (wc if first[0] == 'v' else vc):
      world.reset()
      chains = {'v': Chain('c', VSvc.Iface), 'w': Chain('c', WSvc.Iface)}
      procs = {'v': VSvc.Processor, 'w': WSvc.Processor}
      for pos, case in enumerate((first, second)):
        fam, method, args, oneway, value = case
        frames, _, _ = chains[fam].call('%s%d' % (fam, pos), args, {}, None, method=method)
        n += 1
        bad = None
        ds = [f for f in frames if f[0] == M.T_DISPATCH]
        if len(ds) != 1:
          bad = 'the peer decoded %d Tdispatch frames (%r)' % (len(ds), chains[fam].peer.errors[:1])
        else:
          try:
            body = M.decode_tdispatch(ds[0][2])
            h = Handler()
            h.value = value
            reply, hdr = peers.thrift_process(procs[fam], h, body['payload'])
            if hdr[0] != method or h.calls != [(method, args)]:
              bad = 'the Tdispatch body decodes to %s%r, the caller passed %s%r' % (hdr[0], h.calls, method, args)
            elif hdr[1] != (TMessageType.ONEWAY if oneway else TMessageType.CALL):
              bad = 'Thrift message type %d for a %s method' % (hdr[1], 'oneway' if oneway else 'two-way')
          except Exception as e:  # noqa
            bad = 'the Tdispatch body does not decode with the %s interface: %r' % (fam, e)
        if bad:
          viol.append({'clause': 'C13.two-services', 'message': 'two ThriftMux clients in one process, %s: %s.%s%r: %s'
                       % ('first call' if pos == 0 else 'after %s.%s on the other client' % (first[0], first[1]), fam, method, args, bad),
                       'sig': {'method': method}})
          break
      if len(viol) >= 3:
        return {'n': n, 'keys': n, 'viol': viol, 'sample': None}
  return {'n': n, 'keys': n, 'viol': viol, 'sample': {'two_services': n}}


def thrift_reply(H, value):
  from thrift.protocol.TBinaryProtocol import TBinaryProtocol
  from thrift.transport.TTransport import TMemoryBuffer
  from thrift.Thrift import TMessageType
  t = TMemoryBuffer()
  p = TBinaryProtocol(t)
  p.writeMessageBegin('hi', TMessageType.REPLY, 0)
  H.hi_result(success=value).write(p)
  p.writeMessageEnd()
  return t.getvalue()


def check_replies():
  """Every reply shape through the real receive path: Rdispatch x status x 0-2 reply contexts x payload; Rerr; BAD_Rerr."""
  from scales.message import ServerError
  viol = []
  n = 0
  keys = set()
  world.reset()
  ch = Chain(None)
  H = ch.H
  ctxs = [[], [(b'k', b'v')], [(b'', b''), ('日'.encode('utf-8'), b'x' * 300)]]
  cases = []
  for status in (M.OK, M.ERROR, M.NACK):
    for ctx in ctxs:
      for val in ('', 'ret', 'é日', 'z' * 400):
        cases.append(('rdispatch', status, ctx, val))
  for why in ('', 'boom', 'café'):
    cases.append(('rerr', None, None, why))
    cases.append(('bad_rerr', None, None, why))
  for case in cases:
    n += 1
    kind, status, ctx, val = case
    name = 'p%d' % n
    frames, evt, st = ch.call(name, 'q', {}, None)
    if len(frames) != 1:
      viol.append({'clause': 'C13.framing', 'message': 'request produced %d frames' % len(frames), 'sig': {}})
      break
    tag = frames[0][1]
    if kind == 'rdispatch':
      body = thrift_reply(H, val) if status == M.OK else val.encode('utf-8')
      ch.conn.rx += M.rdispatch(tag, status, body, ctx)
    else:
      ch.conn.rx += M.rerr(tag, val.encode('utf-8'), bad=(kind == 'bad_rerr'))
    ch.conn.wake()
    ch.pump()
    resp = ch.term.responses.get(name, [])
    keys.add((kind, status, len(ctx or ()), val))
    desc = {'reply': kind, 'status': status, 'reply_contexts': len(ctx or ()), 'value': val[:20]}
    if len(resp) != 1:
      viol.append({'clause': 'C13.reply', 'message': 'reply %r produced %d responses' % (desc, len(resp)), 'sig': {'reply': kind}})
      continue
    msg = resp[0][1]
    if kind == 'rdispatch' and status == M.OK:
      ok = msg is not None and msg.error is None and msg.return_value == val
    elif kind == 'rdispatch' and status == M.NACK:
      ok = msg is not None and isinstance(msg.error, ServerError)
    else:
      ok = msg is not None and isinstance(msg.error, ServerError) and str(msg.error) == val
    if not ok:
      viol.append({'clause': 'C13.reply', 'message': 'reply %r was decoded to return_value=%r error=%r'
                   % (desc, getattr(msg, 'return_value', None), getattr(msg, 'error', None)), 'sig': {'reply': kind}})
  return {'n': n, 'keys': len(keys), 'viol': viol, 'sample': None}


def check_headers(tags, types):
  """ReadHeader(BuildHeader(tag, type)) == (type, tag)."""
  from scales.compat import BytesIO
  from scales.thriftmux.sink import ThriftMuxMessageSerializerSink, SocketTransportSink
  read = ThriftMuxMessageSerializerSink.ReadHeader

  class _Sock(object):
    host, port = 'h0', 1000
  s = SocketTransportSink(_Sock(), 'svc')   # a real transport object (never opened): headers are built by its own method
  build = s._BuildHeader
  viol = []
  n = 0
  for tag in tags:
    for t in types:
      n += 1
      hdr = build(tag, t, 5)
      hdr = bytes(hdr)
      ok = len(hdr) == 8 and struct.unpack('>i', hdr[:4])[0] == 4 + 5 and hdr[4:] == M.frame(t, tag)[4:8]
      got = read(BytesIO(hdr[4:])) if ok else None
      if not ok or got != (t, tag):
        if len(viol) < 3:
          viol.append({'clause': 'C13.header', 'message': 'header for (type %d, tag %d) is %r; reader returned %r' % (t, tag, hdr, got),
                       'sig': {'type': t}})
        if len(viol) >= 3:
          return {'n': n, 'keys': n, 'viol': viol, 'sample': None}
  return {'n': n, 'keys': n, 'viol': viol, 'sample': None}


def header_shard(lo, hi, types):
  return check_headers(range(lo, hi), types)


def ctx_dicts():
  out = [{}]
  for k in STRS:
    for v in STRS:
      out.append({k: v})
  for k1, k2 in itertools.combinations(STRS, 2):
    for v1 in STRS:
      for v2 in STRS:
        out.append({k1: v1, k2: v2})
  return out


def main(tier, seed):
  rep = Report(PROP, tier, seed, 'exploration')
  pool = explore.make_pool()
  try:
    ctxs = ctx_dicts()
    deadlines = [None, 0.5025] if tier == 'quick' else [None, 0.5025, 3.0025, 100000.0025]
    args = ARGS[:3] if tier == 'quick' else ARGS
    jobs = []
    for cid in CLIENT_IDS:
      for i in range(0, len(ctxs), 40):
        jobs.append(([cid], ctxs[i:i + 40], deadlines, args))
    out = explore.pmap('vt.checks.c13', 'check_requests', jobs, pool, seed)
    out.append(explore.pmap('vt.checks.c13', 'check_discards', [(12,)], pool, seed)[0])
    out.append(explore.pmap('vt.checks.c13', 'check_replies', [()], pool, seed)[0])
    out.append(explore.pmap('vt.checks.c13', 'check_interleave', [()], pool, seed)[0])
    out.append(explore.pmap('vt.checks.c13', 'check_two_services', [()], pool, seed)[0])
    out.append(explore.pmap('vt.checks.c13', 'check_unencodable', [()], pool, seed)[0])
    out.append(explore.pmap('vt.checks.c13', 'check_redispatch', [()], pool, seed)[0])
    out.append(explore.pmap('vt.checks.c13', 'check_requests_debug_logging', [()], pool, seed)[0])
    out.append(explore.pmap('vt.checks.c13', 'check_small_io', [()], pool, seed)[0])
    nreq = sum(o['n'] for o in out)
    rep.part('frames through the real sinks', engine='E', cases=nreq, context_dicts=len(ctxs), client_ids=CLIENT_IDS,
             deadlines=deadlines, strings=[s[:8] for s in STRS])
    # headers
    reply_types = [M.R_DISPATCH, M.R_ERR, M.BAD_R_ERR, M.R_PING]
    bytes5 = [0x00, 0x01, 0x7f, 0x80, 0xff]
    tags125 = [(a << 16) | (b << 8) | c for a in bytes5 for b in bytes5 for c in bytes5]
    hout = [explore.pmap('vt.checks.c13', 'check_headers', [(tags125, reply_types)], pool, seed)[0]]
    step = 1 << 14 if tier == 'quick' else 1 << 18
    top = 1 << 18 if tier == 'quick' else 1 << 24
    hout += explore.pmap('vt.checks.c13', 'header_shard', [(lo, lo + step, reply_types) for lo in range(0, top, step)], pool, seed)
    nh = sum(o['n'] for o in hout)
    rep.part('header writer/reader round trip', engine='E', pairs=nh, all_tags=(tier == 'thorough'))
    for o in out + hout:
      rep.add_violations(o['viol'])
      if o.get('sample'):
        rep.sample(o['sample'])
    rep.put('evaluations', nreq + nh)
    rep.put('distinct_nontrivial', sum(o['keys'] for o in out + hout))
  finally:
    pool.close()
    pool.join()
  rep.assumptions += ['context keys and values are text; for values of other types (None, numbers, bytes, lists) only "nothing malformed reaches the wire" is checked',
                      'the deadline context is checked for presence and its 16-byte length only']
  return rep.finish(
    rule='full product of client id x caller-property dictionaries (0-2 entries over 5 strings incl. empty, non-ASCII, 300 chars) x '
         'deadline x argument, each sent through the real sink chain and decoded by the independent codec and the generated Processor; '
         'two clients for two interfaces with equally named methods in one process, every ordered pair of calls; '
         'discards after post-write timeouts; every reply shape through the real receive path; header round trip for the reply types '
         '{Rdispatch, Rerr, BAD_Rerr, Rping} x 125 tag byte patterns and all tags below 2^18 (thorough: all 2^24 tags)', exhaustive=True)


def replay(path):
  import json
  print(json.dumps(json.load(open(path)), indent=1)[:3000])
  return 0
