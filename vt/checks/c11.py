"""C11 - multiplexed requests carry unique, unreserved tags that are recycled safely.

Part 1 (engine B): real TagPool(max_tag=7): every history of get / release(leased tag) / release(free tag
again) to a depth; leased tags are distinct, inside [2, max_tag-1], exhaustion raises instead of wrapping,
released tags are reused before new ones are minted.
Part 2 (engine S): the real thriftmux SocketTransportSink against an adversarial mux peer behind the
independent codec.  Application operations: requests with / without a deadline; the environment may
answer requests in any order, fire a request's deadline (what ClientTimeoutSink does) before or after
its frame is written, and make the peer send frames it should not: a reply on tag 0, on tag 1
(non-ping), on highest+1, on highest+5, a duplicate of an answered reply, an unsolicited Rping; and
reset the connection, after which a fresh transport is opened (as the pools do).
"""
import struct

from .. import bfs, explore, peers, simnet, stubs, vloop, world
from ..refcodec import mux as M
from ..report import Report
from .c08 import thrift_payload, hello

PROP = 'C11'
MAXTAG = (1 << 24) - 2


# ---------------------------------------------------------------- part 1: TagPool
def tp_build(params, hist):
  from scales.mux.sink import TagPool
  world.reset()
  pool = TagPool(params['max_tag'], 'svc', 'h0:1000')
  leased = []
  free = []          # reference model: tags released and not re-leased, most recent last
  minted = 1
  viol = []
  exhausted = False
  for op in hist:
    if op[0] == 'get':
      try:
        t = pool.get()
      except Exception as e:  # noqa
        if len(leased) < params['max_tag'] - 2 and free:
          viol.append({'clause': 'C11.pool-exhausted-early', 'message': 'get() raised %r with free tags %r' % (e, free), 'sig': {}})
        elif minted < params['max_tag'] - 1 and not free:
          viol.append({'clause': 'C11.pool-exhausted-early', 'message': 'get() raised %r after minting only %d' % (e, minted), 'sig': {}})
        exhausted = True
        continue
      if t in leased:
        viol.append({'clause': 'C11.pool-duplicate', 'message': 'tag %d leased twice; leased %r; history %r' % (t, leased, hist), 'sig': {}})
      if not (2 <= t <= params['max_tag'] - 1):
        viol.append({'clause': 'C11.pool-range', 'message': 'tag %d outside [2, %d]' % (t, params['max_tag'] - 1), 'sig': {}})
      if free:
        if t not in free:
          viol.append({'clause': 'C11.pool-no-reuse', 'message': 'minted tag %d although released tags %r were available' % (t, free), 'sig': {}})
        else:
          free.remove(t)
      else:
        minted = max(minted, t)
      leased.append(t)
    elif op[0] == 'rel':
      t = leased[op[1]]
      leased.remove(t)
      free.append(t)
      pool.release(t)
    elif op[0] == 'rel2':
      pool.release(free[op[1]])       # double release of a tag that is currently free
  return pool, leased, free, viol, exhausted


def tp_expand(params, hist):
  pool, leased, free, viol, ex = tp_build(params, hist)
  key = repr((sorted(leased), sorted(free), pool._next, sorted(pool._set)))
  out = {'key': key, 'children': [], 'violations': viol, 'builds': 1}
  if viol:
    return out
  ops = [['get']] + [['rel', i] for i in range(len(leased))] + [['rel2', i] for i in range(len(free))]
  for op in ops:
    p2, l2, f2, v2, e2 = tp_build(params, hist + [op])
    out['children'].append({'op': op, 'key': repr((sorted(l2), sorted(f2), p2._next, sorted(p2._set))), 'violations': v2[:1],
                            'terminal': bool(v2)})
  return out


# ---------------------------------------------------------------- part 2: transport vs adversarial peer
class KafkaTagPeer(object):
  """Kafka broker stand-in for the tag (correlation id) checks: parses request headers with the independent codec."""
  ordered = False

  def __init__(self, net, conn, server_log):
    from ..refcodec import kafka as K
    self.K = K
    self.net = net
    self.conn = conn
    self.buf = bytearray()
    self.server_log = server_log
    self.outstanding = {}
    self.discards = []
    self.violations = []
    self.frames = []

  def feed(self, data):
    K = self.K
    self.buf += data
    while len(self.buf) >= 4:
      (n,) = struct.unpack('>i', bytes(self.buf[:4]))
      if n < 0 or len(self.buf) < 4 + n:
        break
      fr = bytes(self.buf[:4 + n])
      del self.buf[:4 + n]
      try:
        req = K.parse_request(fr)
      except Exception as e:  # noqa
        self.violations.append(('bad-frame', repr(e)))
        continue
      tag = req['correlation_id']
      arg = req['body'].decode('utf-8', 'replace')
      rec = {'time': self.net.lp.now(), 'conn': self.conn.id, 'tag': tag, 'raw': fr, 'arg': arg, 'seq': len(self.server_log),
             'dup_tag': tag in self.outstanding}
      self.server_log.append(rec)
      self.outstanding[tag] = rec
      self.net.post('frame', self.conn, K.frame(struct.pack('>i', tag) + b'ok'), {'for': arg, 'tag': tag, 'n': rec['seq']})

  def answered(self, tag):
    self.outstanding.pop(tag, None)

  def on_client_close(self):
    pass


class TWorld(object):
  def __init__(self, params):
    from scales.constants import SinkProperties
    from scales.loadbalancer.zookeeper import Endpoint
    self.p = params
    self.lp = vloop.loop()
    self.net = simnet.new_net()
    self.net.max_recv, self.net.max_send = params.get('max_recv'), params.get('max_send')
    self.server_log = []
    self.H = hello()
    world.SHIMS['thriftmux'].randint_domain = lambda a, b: [a]
    if params.get('tag_jump'):
      world.tag_jump(*params['tag_jump'])
    self.proto = params.get('proto', 'mux')
    if self.proto == 'kafka':
      self.net.add_endpoint('h0', 1000, lambda net, c: KafkaTagPeer(net, c, self.server_log))
    else:
      self.net.add_endpoint('h0', 1000, lambda net, c: peers.MuxPeer(net, c, self.H.Processor, peers.EchoHandler, self.server_log,
                                                                      params.get('peer_script')))
    self.props = {SinkProperties.Endpoint: Endpoint('h0', 1000), SinkProperties.Label: 'svc'}
    self.term = stubs.make_terminal_class()()
    self.viol = []
    self.reqs = []
    self.ops = list(params['ops'])
    self.adversarial_used = 0
    self.sink = None
    self.open_g = None
    self.generation = 0
    self.seen_frames = {}      # conn id -> number of peer frames already checked
    self.written_unanswered = {}   # conn id -> {tag: request name}
    self.peak = 0
    self.early_answered = set()   # args of requests whose tag the peer named in a reply before it had seen the request
    self.peak_by_gen = {}
    self.new_transport()
    self.lp.monitor = self.monitor

  def v(self, clause, msg, **sig):
    self.viol.append({'clause': clause, 'message': msg, 'sig': sig})

  def new_transport(self):
    import gevent
    if self.proto == 'kafka':
      from scales.kafka.sink import KafkaTransportSink as SocketTransportSink
    else:
      from scales.thriftmux.sink import SocketTransportSink
    self.generation += 1
    if self.p.get('singleton_pool'):
      # a singleton pool in front of the transport (what SingletonPoolSink is meant for): requests that arrive while it is
      # connecting wait inside the pool, which puts itself on their sink stack only once the connection is there
      from scales.pool.singleton import SingletonPoolSink
      pb = SingletonPoolSink.Builder()
      pb.next_provider = SocketTransportSink.Builder()
      self.sink = pb.CreateSink(self.props)
    else:
      self.sink = SocketTransportSink.Builder().CreateSink(self.props)
    self.open_g = gevent.spawn(lambda: self.sink.Open().wait())

  # ---- monitor: every frame the peer has decoded since the last callback ------------------------------
  def monitor(self):
    for c in self.net.conns:
      peer = c.peer
      if peer is None:
        continue
      n0 = self.seen_frames.get(c.id, 0)
      recs = [r for r in self.server_log if r.get('conn') == c.id]
      for r in recs[n0:]:
        if 'tag' in r and 'raw' in r:            # a Tdispatch
          tag = r['tag']
          wu = self.written_unanswered.setdefault(c.id, {})
          if not (2 <= tag <= MAXTAG):
            self.v('C11.reserved-tag', 'request %r was written with tag %d (reserved / out of range) on connection c%d'
                   % (r.get('arg'), tag, c.id), tag=tag)
          if r.get('arg') in self.early_answered and tag not in wu:
            # the peer "answered" this request's tag before the request reached it (a reply for a tag it had not seen):
            # the transport completed the request and may reuse the tag; the frame arriving now is not an unanswered request
            continue
          if tag in wu:
            self.v('C11.duplicate-tag', 'request %r was written with tag %d while request %r with the same tag is still unanswered on c%d'
                   % (r.get('arg'), tag, wu[tag], c.id))
          wu[tag] = r.get('arg')
      self.seen_frames[c.id] = len(recs)
      for v in peer.violations:
        if not getattr(peer, '_reported', False):
          peer._reported = True
          self.v('C11.bad-frame', 'peer could not decode a client frame: %r' % (v,))
    # tag-holding requests of the current transport: handed to it and not yet released, where released means the peer
    # answered its tag, or it was never written and a quiescent point with the transport open has passed since its
    # caller was answered (the send loop drops such a request when it reaches it)
    holding = sum(1 for r in self.reqs if r['gen'] == self.generation and not r.get('released'))
    self.peak_by_gen[self.generation] = max(self.peak_by_gen.get(self.generation, 0), holding)

  def at_quiescence(self):
    from scales.constants import ChannelState
    written = set(a for wu in self.written_unanswered.values() for a in wu.values())
    everwritten = set(r.get('arg') for r in self.server_log if 'raw' in r)
    for r in self.reqs:
      if r.get('released'):
        continue
      answered_to_caller = bool(self.term.responses.get(r['name']))
      if r['arg'] in everwritten:
        if r['arg'] not in written:
          r['released'] = True       # the peer has answered its tag (whether or not the client made anything of the answer)
      elif answered_to_caller and (self.sink.state == ChannelState.Open or r['gen'] != self.generation) \
           and not any(c.write_blocked for c in self.net.live_conns()):
        # (while the send buffer is full the send loop cannot reach - and drop - a queued request)
        r['released'] = True

  def peer_answers(self, c, tag):
    self.written_unanswered.setdefault(c.id, {}).pop(tag, None)
    if hasattr(c.peer, 'answered'):
      c.peer.answered(tag)

  # ---- alternatives ------------------------------------------------------------------------------------------------
  def live_conn(self):
    cs = self.net.live_conns()
    return cs[-1] if cs else None

  def alternatives(self):
    alts = []
    net = self.net
    evs = net.enabled_events()
    connects = [e for e in evs if e.kind == 'connect']
    pings = [e for e in evs if e.kind == 'frame' and e.meta and e.meta.get('ping') is not None]
    frames = [e for e in evs if e.kind == 'frame' and not (e.meta and e.meta.get('ping') is not None)]
    for e in connects + pings:
      alts.append((e.label(), lambda e=e: self._fire(e)))
    opened = self.open_g is not None and self.open_g.dead
    if self.ops and (opened or self.p.get('early')):
      alts.append(('app %s' % (self.ops[0],), self._next_op))
    for e in frames:
      alts.append((e.label(), lambda e=e: self._fire(e)))
    t = self.lp.next_timer()
    if not alts and t is not None and t.at <= vloop.EPOCH + self.p.get('horizon', 0.5):
      alts.append(('timer@%.4f' % (t.at - vloop.EPOCH), lambda t=t: self.lp.fire(t)))
    if not alts:
      return alts
    # deviations
    for r in self.reqs:
      if r['deadline'] and not r['timed_out'] and not self.term.responses.get(r['name']):
        alts.append(('deadline-fires %s' % r['name'], lambda r=r: self._timeout(r)))
    if self.proto != 'kafka' and self.p.get('error_replies'):
      # the peer answers a request with an error frame instead of its reply: Rerr (-128) or the legacy BAD_Rerr (127)
      for e in frames:
        if e.meta and e.meta.get('tag') is not None and e.meta.get('for') is not None:
          for bad in (False, True):
            alts.append(('peer answers %s with %s' % (e.meta.get('for'), 'BAD_Rerr' if bad else 'Rerr'),
                         lambda e=e, bad=bad: self._error_reply(e, bad)))
    c = self.live_conn()
    if c is not None and c.peer is not None and opened and self.adversarial_used < self.p.get('max_adversarial', 2):
      wu = self.written_unanswered.get(c.id, {})
      highest = max([r['tag'] for r in self.server_log if r.get('conn') == c.id and 'raw' in r] or [1])
      answered = sorted(set(r['tag'] for r in self.server_log if r.get('conn') == c.id and 'raw' in r and r['tag'] not in wu))
      cands = [0, 1, highest + 1, highest + 5] + answered[:1] + [t | 0x800000 for t in sorted(wu)[:1]]
      # tags the transport has given to requests the peer has not seen yet (still queued behind a blocked write)
      for r in self.reqs:
        tg = self._held_tag(r)
        if tg is not None and tg not in cands and r['arg'] not in wu.values() and not r.get('released') and len(cands) < 9 \
           and not any(x.get('arg') == r['arg'] for x in self.server_log):
          cands.append(tg)
      for tg in cands:
        alts.append(('peer-sends-bogus-reply tag=%d' % tg, lambda tg=tg, c=c: self._bogus(c, tg)))
      if self.proto != 'kafka':
        alts.append(('peer-sends-unsolicited-rping', lambda c=c: self._bogus(c, None)))
      if self.p.get('reset') and not getattr(self, 'did_reset', False):
        alts.append(('reset c%d and open a fresh transport' % c.id, lambda c=c: self._reset(c)))
    return alts

  def _held_tag(self, r):
    if self.proto == 'kafka' or r.get('msg') is None:
      return None
    from scales.mux.sink import Tag
    tg = r['msg'].properties.get(Tag.KEY)
    return tg if isinstance(tg, int) else None

  def _fire(self, ev):
    self.net.fire(ev, 'ok')
    if ev.kind == 'frame' and ev.meta and ev.meta.get('tag') is not None:
      self.peer_answers(ev.conn, ev.meta['tag'])

  def _error_reply(self, ev, bad):
    self.net.pending.remove(ev)
    tag = ev.meta['tag']
    ev.conn.rx += M.rerr(tag, b'server says no', bad=bad)
    self.peer_answers(ev.conn, tag)
    ev.conn.wake()

  def _bogus(self, c, tag):
    self.adversarial_used += 1
    if tag is not None:
      for r in self.reqs:
        if self._held_tag(r) == tag and r['gen'] == self.generation and not any(x.get('arg') == r['arg'] for x in self.server_log):
          self.early_answered.add(r['arg'])
    if self.proto == 'kafka':
      from ..refcodec import kafka as K
      c.rx += K.frame(struct.pack('>i', tag if tag is not None else 1) + b'bogus')
      if tag is not None:
        self.peer_answers(c, tag)
    elif tag is None:
      c.rx += M.rping(1)
    else:
      from thrift.protocol.TBinaryProtocol import TBinaryProtocol
      from thrift.transport.TTransport import TMemoryBuffer
      from thrift.Thrift import TMessageType
      t = TMemoryBuffer()
      pr = TBinaryProtocol(t)
      pr.writeMessageBegin('hi', TMessageType.REPLY, 0)
      self.H.hi_result(success='bogus').write(pr)
      pr.writeMessageEnd()
      c.rx += M.rdispatch(tag, M.OK, t.getvalue())
      # a reply naming an outstanding tag answers it from the peer's point of view
      self.peer_answers(c, tag)
    c.wake()

  def _reset(self, c):
    self.did_reset = True
    self.net.inject(c, 'reset')
    vloop.run_ready()
    self.new_transport()

  def _timeout(self, r):
    from scales.message import MethodReturnMessage, TimeoutError
    r['timed_out'] = True
    r['writes_at_timeout'] = len(self.net.write_log)
    r['evt'].Set(True)
    r['stack'].AsyncProcessResponseMessage(MethodReturnMessage(error=TimeoutError()))

  def _next_op(self):
    import gevent
    from scales.compat import BytesIO
    from scales.constants import TransportHeaders
    from scales.message import MethodCallMessage, Deadline
    from scales.observable import Observable
    from scales.sink import ClientMessageSinkStack
    op = self.ops.pop(0)
    if op[0] == 'open':
      # Open() again on a transport that is already open (a second owner, or a caller making sure it is ready): idempotent
      gevent.spawn(lambda: self.sink.Open().wait())
      return
    if op[0] in ('block', 'unblock'):
      # scripted back-pressure: the connection's send buffer is full from here on / drains
      c = self.live_conn()
      if c is not None:
        self.net.inject(c, 'block-writes' if op[0] == 'block' else 'unblock-writes')
      return
    name = op[1]
    arg = 'arg-%s' % name
    msg = MethodCallMessage(None, 'hi', (arg,), {})
    stack = ClientMessageSinkStack()
    stack.Push(self.term, name)
    rec = {'name': name, 'arg': arg, 'stack': stack, 'deadline': len(op) > 2 and op[2], 'timed_out': False, 'evt': None,
           'gen': self.generation, 'msg': msg}
    if rec['deadline']:
      rec['evt'] = Observable()
      msg.properties[Deadline.EVENT_KEY] = rec['evt']
    if self.proto == 'kafka':
      body = arg.encode('utf-8')
      mtype = 0
    else:
      body = M.encode_ctx([]) + struct.pack('>hh', 0, 0) + thrift_payload(arg)
      mtype = 2
    buf = BytesIO()
    buf.write(body)
    self.reqs.append(rec)
    gevent.spawn(self.sink.AsyncProcessRequest, stack, msg, buf, {TransportHeaders.MessageType: mtype})

  def finish(self):
    self.lp.monitor = None
    self.monitor()
    for r in self.reqs:
      n = len(self.term.responses.get(r['name'], []))
      if n > 1:
        self.v('C11.answered-twice', 'request %s received %d responses' % (r['name'], n))
      if n >= 1 and self.proto != 'kafka':
        t, msg, stream = self.term.responses[r['name']][0]
        if stream is not None:
          data = bytes(stream.getvalue())
          others = [q['arg'] for q in self.reqs if q is not r and q['arg'].encode('utf-8') in data and r['arg'].encode('utf-8') not in data]
          if others and b'bogus' not in data:
            self.v('C02.wrong-reply', 'request %s was completed with the reply to request %s' % (r['arg'], others[0]), transport=self.proto)
      if r['timed_out']:
        needle = r['arg'].encode('utf-8')
        later = [w for w in self.net.write_log[r['writes_at_timeout']:] if needle in w[2]]
        if later:
          self.v('C12.sent-after-timeout', 'request %s: its caller was handed TimeoutError (deadline fired), and afterwards its request was '
                 'written to connection c%d' % (r['name'], later[0][1]), transport=self.proto)
    # tag consumption bounded by peak concurrency + unanswered discards (per transport / connection)
    gen = 0
    for c in self.net.conns:
      gen += 1
      tags = [r['tag'] for r in self.server_log if r.get('conn') == c.id and 'raw' in r]
      if not tags or c.peer is None:
        continue
      peak = self.peak_by_gen.get(gen, 0)
      bound = 1 + peak + self.adversarial_used
      if max(tags) > bound and max(tags) <= MAXTAG and not self.p.get('tag_jump'):
        self.v('C11.no-reuse', 'connection c%d: highest tag %d > 1 + peak number of tag-holding requests %d (+%d bogus frames): '
               'answered tags are not reused (tags used: %r)' % (c.id, max(tags), peak, self.adversarial_used, tags))

  def outcome(self):
    tags = ['c%d:%s=%d' % (r['conn'], r.get('arg'), r['tag']) for r in self.server_log if 'raw' in r]
    res = []
    for r in self.reqs:
      rs = self.term.responses.get(r['name'], [])
      res.append('%s:%d' % (r['name'], len(rs)))
    return ' '.join(tags) + ' | ' + ' '.join(res)


def run_exec(params, prefix, expect):
  world.reset()
  ch = world.Chooser(prefix, expect)
  w = TWorld(params)
  world.set_chooser(ch)
  trace = []
  steps = 0
  lp = vloop.loop()
  preempts_left = params.get('max_preempt', 0)
  try:
    while steps < 200:
      while preempts_left > 0 and not lp.quiescent():
        # between two ready callbacks a request's deadline may fire (what ClientTimeoutSink does from its own greenlet)
        cands = [r for r in w.reqs if r['deadline'] and not r['timed_out'] and not w.term.responses.get(r['name'])]
        if cands:
          i = ch.choose(['next-callback'] + ['preempt: deadline-fires %s' % r['name'] for r in cands], 'preempt')
          if i > 0:
            preempts_left -= 1
            trace.append('PREEMPT deadline-fires %s before %d pending callbacks' % (cands[i - 1]['name'], len(lp._ready)))
            w._timeout(cands[i - 1])
        vloop.run_ready(budget=1)
      vloop.run_ready()
      w.at_quiescence()
      alts = w.alternatives()
      if not alts:
        break
      i = 0 if len(alts) == 1 else ch.choose([a[0] for a in alts], 'env')
      trace.append(alts[i][0])
      alts[i][1]()
      steps += 1
    vloop.run_ready()
    w.finish()
  finally:
    world.set_chooser(None)
  seen = set()
  viol = []
  for v in w.viol:
    if v['clause'] not in seen:
      seen.add(v['clause'])
      v = dict(v)
      v['replay'] = {'params': params, 'choices': ch.choices, 'trace': trace}
      viol.append(v)
  return {'points': [(p.labels, p.chosen, p.costs) for p in ch.points], 'violations': viol, 'outcome': w.outcome(), 'trace': trace}


def scenarios(tier):
  out = [
    ('3 requests, 2 with deadlines', {'ops': [['req', 'a', True], ['req', 'b'], ['req', 'c', True]], 'max_adversarial': 2}),
    ('4 sequential-ish requests, tag reuse', {'ops': [['req', 'a'], ['req', 'b'], ['req', 'c', True], ['req', 'd']], 'max_adversarial': 1}),
    ('requests issued while opening', {'ops': [['req', 'a', True], ['req', 'b']], 'max_adversarial': 1, 'early': True}),
    ('connection reset and fresh transport', {'ops': [['req', 'a'], ['req', 'b', True], ['req', 'c']], 'max_adversarial': 1, 'reset': True}),
  ]
  out.append(('kafka transport: 3 requests, 2 with deadlines', {'proto': 'kafka', 'ops': [['req', 'a', True], ['req', 'b'], ['req', 'c', True]],
                                                              'max_adversarial': 1}))
  out.append(('3 requests, a deadline may fire between two ready callbacks',
              {'ops': [['req', 'a', True], ['req', 'b', True], ['req', 'c']], 'max_adversarial': 1, 'max_preempt': 1, '_bound': 2}))
  out.append(('4 sequential-ish requests, the peer may answer with Rerr / BAD_Rerr',
              {'ops': [['req', 'a'], ['req', 'b'], ['req', 'c', True], ['req', 'd']], 'max_adversarial': 0, 'error_replies': True, '_bound': 2}))
  out.append(('4 requests, 2 with deadlines; the peer acknowledges discards (Rdiscarded)',
              {'ops': [['req', 'a', True], ['req', 'b', True], ['req', 'c'], ['req', 'd']], 'max_adversarial': 0,
               'peer_script': {'ack_discards': True}}))
  out.append(('send buffer full, a request with a deadline queued BEHIND another queued request, then it drains; one more request',
              {'ops': [['block'], ['req', 'x'], ['req', 'b'], ['req', 'a', True], ['unblock'], ['req', 'c']], 'max_adversarial': 1, '_bound': 2}))
  out.append(('3 requests, 2 with deadlines; the kernel hands out 4 bytes per recv and takes 5 per send',
              {'ops': [['req', 'a', True], ['req', 'b'], ['req', 'c', True]], 'max_adversarial': 1, 'max_recv': 4, 'max_send': 5, '_bound': 2}))
  out.append(('Open() called again while a request is unanswered',
              {'ops': [['req', 'a', True], ['open'], ['req', 'b'], ['req', 'c']], 'max_adversarial': 0, '_bound': 2}))
  out.append(('send buffer full while 3 requests queue up, then drains; one more request',
              {'ops': [['block'], ['req', 'x'], ['req', 'a', True], ['req', 'b'], ['unblock'], ['req', 'c']], 'max_adversarial': 1}))
  # tags beyond 16 bits: the counter jumps as if the tags in between were held by requests that were never answered
  for to in (65536, 65537, 65538):
    out.append(('3 requests, the tag counter jumps from 2 to %d' % to,
                {'ops': [['req', 'a', True], ['req', 'b'], ['req', 'c', True]], 'max_adversarial': 1, 'tag_jump': [2, to], '_bound': 2}))
  if tier == 'thorough':
    out.append(('5 requests', {'ops': [['req', 'a', True], ['req', 'b'], ['req', 'c', True], ['req', 'd'], ['req', 'e']], 'max_adversarial': 2}))
  return out


def main(tier, seed):
  rep = Report(PROP, tier, seed, 'model_checking')
  pool = bfs.make_pool()
  try:
    depth = 10 if tier == 'quick' else 12
    res = bfs.run_bfs('vt.checks.c11', 'tp_expand', {'max_tag': 7}, depth, pool, seed=seed, stop_on_violation=False)
    rep.add_bfs('TagPool(max_tag=7) get/release histories', res, depth, params={'max_tag': 7}, replay_base={'tagpool': True})
    bound = 3 if tier == 'quick' else 4
    for name, params in scenarios(tier):
      own = '_bound' in params
      b = params.pop('_bound', bound) + (1 if tier == 'thorough' and own else 0)
      agg = explore.explore('vt.checks.c11', 'run_exec', params, b, seed=seed, pool=pool, split_levels=1 if b <= 2 else 2)
      agg.violations = [v for v in agg.violations if v['clause'].startswith('C11.')]
      rep.add_explore('transport: ' + name, agg, b, params=params)
  finally:
    pool.close()
    pool.join()
  rep.assumptions += ['TagPool explored with max_tag=7 (tags 2..6); the production bound 2^24-2 is the same code with max_tag=2^24-1',
                      'a reply naming an outstanding tag - even an unsolicited one - answers that tag from the peer\'s point of view',
                      're-open = a fresh transport object for the endpoint (what the pools and the resurrector do)',
                      'a reply naming the tag of a request that has not reached the peer yet (queued behind a full send buffer) completes '
                      'that request; when its frame arrives later it is not counted as an unanswered request']
  return rep.finish(
    rule='part 1: BFS over get/release/double-release histories of the real TagPool; part 2: stateless exploration (<= d deviations) '
         'of the real ThriftMux transport against an adversarial peer: default = issue requests, then answer in order; deviations = answer '
         'another request first, fire a deadline, bogus peer frames (tag 0, 1, highest+1, highest+5, duplicate, unsolicited Rping), reset + '
         'fresh transport; a monitor checks the tag of every frame the peer decodes', exhaustive=True)


def replay(path):
  import json
  world.boot()
  v = json.load(open(path))
  rp = v['replay']
  if rp.get('tagpool'):
    print(tp_build({'max_tag': 7}, rp['history']))
    return 0
  r = run_exec(rp['params'], rp['choices'], None)
  for i, t in enumerate(r['trace']):
    print('%3d %s' % (i, t))
  print('outcome:', r['outcome'])
  for x in r['violations']:
    print('VIOLATION-DETAIL', x['clause'], x['message'])
  return 1 if r['violations'] else 0
