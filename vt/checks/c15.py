"""C15 - Kafka produce requests and responses are well-formed for every input.  (Engine E + a 2-request schedule)

KafkaSerializerSink -> KafkaTransportSink over FakeSock; every request the client writes is parsed by
the independent codec (vt/refcodec/kafka.py); every response is encoded by the independent codec and
pushed through the real receive path.
"""
import itertools
import struct

from .. import explore, simnet, stubs, vloop, world
from ..refcodec import kafka as K
from ..report import Report

PROP = 'C15'

TOPICS = [b'', b't', 'tøpic'.encode('utf-8'), b'x' * 200]
PARTITIONS = [0, 1, 2 ** 31 - 1]
ACKS = [0, 1, -1]
PAYLOADS = [[], [b''], [b'a'], [b'a', b'bc'], [bytes(range(256))], [b'z' * 70000], [b'p1', b'', b'p3' * 50]]


SMALL_IO = [None, None]      # (bytes per recv call, bytes per send call); None = unlimited


class KPeer(object):
  ordered = False

  def __init__(self, net, conn):
    self.conn = conn
    self.raw = bytearray()

  def feed(self, data):
    self.raw += data

  def on_client_close(self):
    pass


class Chain(object):
  def __init__(self, pump_open=True):
    import gevent
    from scales.constants import SinkProperties
    from scales.kafka.sink import KafkaSerializerSink, KafkaTransportSink, KafkaEndpoint
    self.net = simnet.new_net()
    self.net.max_recv, self.net.max_send = SMALL_IO
    self.net.add_endpoint('h0', 9092, lambda net, c: KPeer(net, c))
    a = KafkaSerializerSink.Builder()
    b = KafkaTransportSink.Builder()
    a.next_provider = b
    self.KafkaEndpoint = KafkaEndpoint
    self.top = a.CreateSink({SinkProperties.Endpoint: KafkaEndpoint('h0', 9092, 0), SinkProperties.Label: 'kafka'})
    self.transport = self.top.next_sink
    self.term = stubs.make_terminal_class()()
    self.open_box = {}

    def opener():
      try:
        self.transport.Open().get()
        self.open_box['ok'] = True
      except Exception as e:  # noqa
        self.open_box['exc'] = e
    gevent.spawn(opener)
    if pump_open:
      self.pump()
      self.attach()

  def attach(self):
    self.conn = self.net.conns[-1]
    self.peer = self.conn.peer

  def pump(self):
    for _ in range(20):
      vloop.run_ready()
      evs = self.net.enabled_events()
      if not evs:
        break
      self.net.fire(evs[0], 'ok')
    vloop.run_ready()

  def put(self, name, topic, partition, payloads, acks, form=0):
    from scales.constants import MessageProperties
    from scales.message import MethodCallMessage
    from scales.sink import ClientMessageSinkStack
    if form == 0:
      msg = MethodCallMessage(None, 'Put', (topic, payloads, acks), {})
    elif form == 1:
      msg = MethodCallMessage(None, 'Put', (topic,), {'payloads': payloads, 'acks': acks})
    elif form == 2:
      msg = MethodCallMessage(None, 'Put', (), {'acks': acks, 'topic': topic, 'payloads': payloads})
    else:
      msg = MethodCallMessage(None, 'Put', (topic, payloads), {'acks': acks})
    msg.properties[MessageProperties.Endpoint] = self.KafkaEndpoint('h0', 9092, partition)
    st = ClientMessageSinkStack()
    st.Push(self.term, name)
    r0 = len(self.peer.raw)
    import gevent
    gevent.spawn(self.top.AsyncProcessRequest, st, msg, None, {})     # as the dispatcher does
    self.pump()
    return bytes(self.peer.raw[r0:])

  def metadata(self, name):
    from scales.message import MethodCallMessage
    from scales.sink import ClientMessageSinkStack
    msg = MethodCallMessage(None, '__metadata', [], {})
    st = ClientMessageSinkStack()
    st.Push(self.term, name)
    r0 = len(self.peer.raw)
    self.top.AsyncProcessRequest(st, msg, None, {})
    self.pump()
    return bytes(self.peer.raw[r0:])

  def reply(self, payload):
    self.conn.rx += K.frame(payload)
    self.conn.wake()
    self.pump()


def check_requests(topics, partitions, acks_list, payload_lists):
  viol = []
  n = 0
  keys = set()
  sample = None
  world.reset()
  ch = Chain()
  for topic in topics:
    for part in partitions:
      for acks in acks_list:
        for pl in payload_lists:
          n += 1
          name = 'k%d' % n
          if ch.transport.state != 2:
            world.reset()
            ch = Chain()
          written = ch.put(name, topic, part, list(pl), acks)
          case = {'topic': repr(topic[:12]), 'partition': part, 'acks': acks, 'payload_lengths': [len(p) for p in pl]}
          keys.add((topic, part, acks, tuple(len(p) for p in pl)))
          bad = None
          resp = ch.term.responses.get(name)
          if not written:
            err = resp[0][1].error if resp else None
            errs = vloop.loop().errors
            bad = ('C15.nothing-sent', 'no bytes were written; client-side response: %r; greenlet error: %r'
                   % (err, errs[-1][1:3] if errs else None))
          else:
            try:
              req = K.parse_request(written)
              if req['api_key'] != 0 or req['api_version'] != 0:
                bad = ('C15.header', 'api key/version %r/%r' % (req['api_key'], req['api_version']))
              elif req['client_id'] != b'scales':
                bad = ('C15.header', 'client id %r' % (req['client_id'],))
              elif not (2 <= req['correlation_id'] <= (1 << 24) - 2):
                bad = ('C15.header', 'correlation id %r' % (req['correlation_id'],))
              else:
                p = K.parse_produce(req['body'])
                msgs = p['topics'][0]['partitions'][0]['messages'] if p['topics'] and p['topics'][0]['partitions'] else None
                if p['acks'] != acks or len(p['topics']) != 1 or p['topics'][0]['topic'] != topic or \
                   len(p['topics'][0]['partitions']) != 1 or p['topics'][0]['partitions'][0]['partition'] != part:
                  bad = ('C15.produce', 'decoded %r' % ({'acks': p['acks'], 'topics': [(t['topic'], [q['partition'] for q in t['partitions']]) for t in p['topics']]},))
                elif [m['value'] for m in msgs] != list(pl):
                  bad = ('C15.produce', 'decoded payload lengths %r' % ([len(m['value'] or b'') for m in msgs],))
                elif not all(m['crc_ok'] for m in msgs):
                  bad = ('C15.crc', 'CRC32 mismatch in %r' % ([m['crc_ok'] for m in msgs],))
                elif any(m['key'] is not None or m['magic'] != 0 or m['attributes'] != 0 for m in msgs):
                  bad = ('C15.produce', 'key/magic/attributes %r' % ([(m['key'], m['magic'], m['attributes']) for m in msgs],))
                else:
                  # answer so that the tag is recycled, and check the reply reaches this request
                  ch.reply(K.produce_response(req['correlation_id'], [(topic, [(part, 0, n)])]))
                  resp = ch.term.responses.get(name)
                  rv = resp[0][1].return_value if resp and resp[0][1] is not None else None
                  if not resp or len(resp) != 1 or rv is None or len(rv) != 1 or tuple(rv[0]) != (topic, part, 0, n):
                    bad = ('C15.response', 'produce response (topic, partition, 0, %d) decoded to %r' % (n, rv if resp else None))
            except K.KafkaFormatError as e:
              bad = ('C15.malformed', 'independent parser: %s' % e)
            except Exception as e:  # noqa
              bad = ('C15.malformed', 'independent parser failed: %r' % (e,))
          if sample is None and len(pl) == 2:
            sample = case
          if bad:
            viol.append({'clause': bad[0], 'message': bad[1] + '; case %r' % (case,), 'sig': {}, 'replay': {'case': case}})
            if len(viol) >= 4:
              return {'n': n, 'keys': len(keys), 'viol': viol, 'sample': sample}
            world.reset()
            ch = Chain()
  return {'n': n, 'keys': len(keys), 'viol': viol, 'sample': sample}


def check_client_ids():
  """The client id in the header is whatever KafkaTransportSink.CLIENT_ID says (shorter, longer, non-ASCII)."""
  import gevent
  from scales.kafka.sink import KafkaTransportSink
  viol = []
  n = 0
  orig = KafkaTransportSink.CLIENT_ID
  try:
    for cid in ('scales', 'c', 'a-much-longer-client-id', 'çlient', ''):
      KafkaTransportSink.CLIENT_ID = cid
      world.reset()
      ch = Chain()
      for pl in ([b'a'], [b'a', b'bc']):
        n += 1
        written = ch.put('i%d' % n, b't', 0, list(pl), 1)
        try:
          req = K.parse_request(written)
          p = K.parse_produce(req['body'])
          ok = req['client_id'] == cid.encode('utf-8') and [m['value'] for m in p['topics'][0]['partitions'][0]['messages']] == list(pl)
          got = (req['client_id'], [m['value'] for m in p['topics'][0]['partitions'][0]['messages']])
        except Exception as e:  # noqa
          ok, got = False, repr(e)
        if not ok:
          viol.append({'clause': 'C15.header', 'message': 'client id %r: request decodes to %r' % (cid, got), 'sig': {'client_id': cid}})
          break
        ch.reply(K.produce_response(req['correlation_id'], [(b't', [(0, 0, 1)])]))
  finally:
    KafkaTransportSink.CLIENT_ID = orig
  return {'n': n, 'keys': n, 'viol': viol, 'sample': None}


def check_responses(tier):
  """Every encodable produce / metadata response through the real protocol class and receive path."""
  from scales.compat import BytesIO
  from scales.kafka.protocol import KafkaProtocol, MessageType
  viol = []
  n = 0
  proto = KafkaProtocol()
  big = [0, 1, -1, 2 ** 63 - 1, -2 ** 63]
  names = [b'', b't', 'tø'.encode('utf-8')]
  # produce responses
  part_opts = [[], [(0, 0, 0)], [(1, 3, 2 ** 63 - 1), (2 ** 31 - 1, -1, -2 ** 63)]]
  for topics in itertools.chain([[]], ([(a, p)] for a in names for p in part_opts),
                                ([(a, p), (b, q)] for a in names[:2] for b in names[1:] for p in part_opts for q in part_opts[1:])):
    for corr in (2, 77, (1 << 24) - 2):
      n += 1
      data = K.produce_response(corr, topics)
      try:
        ret = proto.DeserializeMessage(BytesIO(data), MessageType.ProduceRequest).return_value
        got = [tuple(x) for x in ret]
      except Exception as e:  # noqa
        got = repr(e)
      want = [(name, p, e, o) for (name, parts) in topics for (p, e, o) in parts]
      if got != want:
        viol.append({'clause': 'C15.response', 'message': 'produce response %r decoded to %r' % (want, got), 'sig': {}})
        break
  # metadata responses
  hosts = [b'h', 'hø.example'.encode('utf-8')]
  arrs = [[], [1], [0, 2 ** 31 - 1]]
  broker_opts = [[], [(0, hosts[0], 9092)], [(1, hosts[1], 1), (2 ** 31 - 1, hosts[0], 65535)]]
  parts_opts = [[]] + [[(pe, pid, leader, r, i)] for pe in (0, 9) for pid in (0, 7) for leader in (-1, 1) for r in arrs for i in arrs[:2]]
  parts_opts.append([(0, 0, 1, [1], [1]), (0, 1, 2, [2, 1], [])])
  topic_opts = [[]] + [[(e, nm, p)] for e in (0, 3) for nm in names[1:] for p in parts_opts]
  topic_opts.append([(0, b'a', parts_opts[1]), (5, b'b', parts_opts[-1])])
  for brokers in broker_opts:
    for topics in topic_opts:
      n += 1
      data = K.metadata_response(5, brokers, topics)
      try:
        ret = proto.DeserializeMessage(BytesIO(data), MessageType.MetadataRequest).return_value
        gb = dict((k, tuple(v)) for k, v in ret.brokers.items())
        gt = dict((k, dict((pid, (pm.topic_name, pm.partition_id, pm.leader, tuple(pm.replicas), tuple(pm.isr))) for pid, pm in v.items()))
                  for k, v in ret.topics.items())
        got = (gb, gt)
      except Exception as e:  # noqa
        got = repr(e)
      wb = dict((node, (node, h, p)) for (node, h, p) in brokers)
      wt = dict((nm, dict((pid, (nm, pid, leader, tuple(r), tuple(i))) for (pe, pid, leader, r, i) in parts)) for (e, nm, parts) in topics)
      if got != (wb, wt):
        viol.append({'clause': 'C15.response', 'message': 'metadata response brokers=%r topics=%r decoded to %r' % (brokers, topics, got), 'sig': {}})
        break
  return {'n': n, 'keys': n, 'viol': viol, 'sample': None}


class Broker(object):
  """A Kafka v0 broker written on the independent codec: answers metadata requests (one broker, one topic, one partition led by it)
  and produce requests (echoing topic and partition, with the scripted error code)."""
  ordered = False

  def __init__(self, net, conn, script):
    self.conn = conn
    self.buf = bytearray()
    self.script = script
    self.log = []

  def feed(self, data):
    self.buf += data
    while len(self.buf) >= 4:
      (n,) = struct.unpack('>i', bytes(self.buf[:4]))
      if len(self.buf) < 4 + n:
        break
      fr = bytes(self.buf[:4 + n])
      del self.buf[:4 + n]
      rq = K.parse_request(fr)
      self.log.append((rq['api_key'], rq['correlation_id']))
      if rq['api_key'] == 3:
        self.conn.rx += K.frame(K.metadata_response(rq['correlation_id'], [(0, b'h0', 9092)], [(0, b't', [(0, 0, 0, [0], [0])])]))
      else:
        t = K.parse_produce(rq['body'])['topics'][0]
        self.conn.rx += K.frame(K.produce_response(rq['correlation_id'],
                                                   [(t['topic'], [(t['partitions'][0]['partition'], self.script['code'], self.script['offset'])])]))
      self.conn.wake()

  def on_client_close(self):
    pass


def check_client_errors(codes):
  """The complete Kafka client (router, balancer, serializer, shared sink, resurrector, transport) against a scripted broker:
  for every error code the produce response carries, the reply reaches the caller of that Put - as the decoded response for
  code 0, as a KafkaError carrying exactly that code otherwise."""
  import gevent
  from scales.kafka import Kafka
  from scales.kafka.protocol import KafkaError
  viol = []
  n = 0
  world.reset()
  lp = vloop.loop()
  net = simnet.new_net()
  script = {'code': 0, 'offset': 5}
  net.add_endpoint('h0', 9092, lambda net, c: Broker(net, c, script))
  box = {}
  gevent.spawn(lambda: box.setdefault('c', Kafka.NewBuilder().SetUri('tcp://h0:9092').Build()))

  def pump(tmax):
    end = lp.now() + tmax
    for _ in range(5000):
      vloop.run_ready()
      evs = net.enabled_events()
      if evs:
        net.fire(evs[0], 'ok')
        continue
      t = lp.next_timer()
      if t is None or t.at > end:
        break
      lp.fire(t)
  pump(1.0)
  client = box.get('c')
  if client is None:
    return {'n': 1, 'keys': 1, 'viol': [{'clause': 'C15.client', 'message': 'Kafka client could not be built: %r' % (lp.errors[:1],), 'sig': {}}],
            'sample': None}
  for code in codes:
    n += 1
    script['code'] = code
    script['offset'] = 1000 + (code % 7)
    ar = client.Put_async(b't', [b'payload-%d' % code])
    pump(0.3)
    bad = None
    if not ar.ready():
      bad = 'the caller of Put was never answered (greenlet errors: %r)' % ([(e[1], str(e[2])[:60]) for e in lp.errors[:2]],)
      lp.errors = []
    elif code == 0:
      want = [(b't', 0, 0, script['offset'])]
      got = [tuple(x) for x in ar.value] if ar.successful() and ar.value is not None else repr(ar.exception)
      if got != want:
        bad = 'Put returned %r, the broker encoded %r' % (got, want)
    else:
      e = ar.exception
      inner = getattr(e, 'inner_exception', e)
      if not isinstance(inner, KafkaError) or inner.error_code != code:
        bad = 'Put completed with %r (value %r), expected a KafkaError carrying code %d' % (inner, ar.value if ar.successful() else None, code)
    if bad:
      viol.append({'clause': 'C15.reply-delivery', 'message': 'produce response with error code %d: %s' % (code, bad), 'sig': {'code': code}})
      if len(viol) >= 3:
        break
  return {'n': n, 'keys': n, 'viol': viol, 'sample': {'client_error_codes': [codes[0], codes[-1]]}}


def check_call_forms():
  """Put(topic, payloads, acks) called positionally, by keyword and mixed: the request carries what was passed (acks 0, empty payload lists)."""
  viol = []
  n = 0
  world.reset()
  ch = Chain()
  for form in (0, 1, 2, 3):
    for acks in ACKS:
      for pl in PAYLOADS[:4]:
        n += 1
        if ch.transport.state != 2:
          world.reset()
          ch = Chain()
        written = ch.put('f%d' % n, b't', 0, list(pl), acks, form)
        bad = None
        try:
          p = K.parse_produce(K.parse_request(written)['body'])
          t = p['topics'][0]
          got = (p['acks'], t['topic'], [m['value'] for m in t['partitions'][0]['messages']])
          if got != (acks, b't', list(pl)):
            bad = 'request carries acks=%r topic=%r payloads=%r' % got
        except Exception as e:  # noqa
          bad = 'request does not parse: %r (%d bytes written)' % (e, len(written))
        if bad:
          viol.append({'clause': 'C15.fields', 'message': 'Put called %s with acks=%r payloads=%r: %s'
                       % (['positionally', 'with payloads and acks by keyword', 'all by keyword', 'with acks by keyword'][form], acks, pl, bad),
                       'sig': {'form': form}})
          if len(viol) >= 3:
            return {'n': n, 'keys': n, 'viol': viol, 'sample': None}
  return {'n': n, 'keys': n, 'viol': viol, 'sample': {'call_forms': 4}}


def check_small_io():
  """Requests and replies once more with a kernel that moves 3 bytes per recv and 7 per send() call."""
  out = {'n': 0, 'keys': 0, 'viol': [], 'sample': {'small_io': [3, 7]}}
  SMALL_IO[:] = [3, 7]
  try:
    for fn, args in ((check_requests, ([b't'], [0, 1], ACKS, PAYLOADS[:5])), (check_correlation, ())):
      try:
        r = fn(*args)
      except Exception as e:  # noqa
        r = {'n': 1, 'keys': 1, 'viol': [{'clause': 'C15.malformed', 'sig': {'small_io': True},
                                         'message': '%s could not be carried out: %s: %s' % (fn.__name__, type(e).__name__, str(e)[:200])}]}
      out['n'] += r['n']
      out['keys'] += r['keys']
      for v in r['viol']:
        v['message'] = 'with at most 3 bytes per recv and 7 per send: ' + v['message']
        out['viol'].append(v)
  finally:
    SMALL_IO[:] = [None, None]
  return out


def check_while_opening():
  """2-3 produce requests handed to the serializer while the transport is still connecting; once it is open, what is written
  must be one well-formed request per call, each with its own topic, partition and payloads."""
  import gevent
  from scales.constants import MessageProperties
  from scales.message import MethodCallMessage
  from scales.sink import ClientMessageSinkStack
  viol = []
  n = 0
  for k in (1, 2, 3):
    n += 1
    world.reset()
    ch = Chain(pump_open=False)
    vloop.run_ready()          # the connect is now pending
    for i in range(k):
      msg = MethodCallMessage(None, 'Put', (b'topic%d' % i, [b'payload%d' % i] * (i + 1), 1), {})
      msg.properties[MessageProperties.Endpoint] = ch.KafkaEndpoint('h0', 9092, i)
      st = ClientMessageSinkStack()
      st.Push(ch.term, 'o%d' % i)
      gevent.spawn(ch.top.AsyncProcessRequest, st, msg, None, {})
      vloop.run_ready()
    ch.pump()
    ch.attach()
    raw = bytes(ch.peer.raw)
    got = []
    bad = None
    off = 0
    try:
      while off < len(raw):
        (size,) = struct.unpack('>i', raw[off:off + 4])
        rq = K.parse_request(raw[off:off + 4 + size])
        off += 4 + size
        p = K.parse_produce(rq['body'])
        t = p['topics'][0]
        got.append((t['topic'], t['partitions'][0]['partition'], [m['value'] for m in t['partitions'][0]['messages']],
                    all(m['crc_ok'] for m in t['partitions'][0]['messages']), rq['correlation_id']))
    except Exception as e:  # noqa
      bad = 'what was written does not parse as Kafka requests: %r' % (e,)
    if bad is None:
      want = sorted((b'topic%d' % i, i, [b'payload%d' % i] * (i + 1)) for i in range(k))
      if sorted(g[:3] for g in got) != want:
        bad = 'requests written: %r, calls made: %r' % ([g[:3] for g in got], want)
      elif not all(g[3] for g in got):
        bad = 'a message CRC does not verify'
      elif len(set(g[4] for g in got)) != k:
        bad = 'correlation ids %r are not distinct' % ([g[4] for g in got],)
    if bad:
      viol.append({'clause': 'C15.malformed', 'message': '%d requests issued while the transport was connecting: %s' % (k, bad), 'sig': {'while_opening': True}})
      break
  return {'n': n, 'keys': n, 'viol': viol, 'sample': {'requests_while_opening': 3}}


def check_correlation():
  """Two (three) concurrent requests, replies in every order: each caller gets the reply with its correlation id."""
  viol = []
  n = 0
  for k, batched in ((2, False), (3, False), (2, True), (3, True)):
    for order in itertools.permutations(range(k)):
      n += 1
      world.reset()
      ch = Chain()
      reqs = []
      for i in range(k):
        w = ch.put('c%d' % i, b'topic%d' % i, i, [b'payload%d' % i], 1)
        try:
          reqs.append(K.parse_request(w))
        except Exception as e:  # noqa
          viol.append({'clause': 'C15.malformed', 'message': 'concurrent request %d: %r' % (i, e), 'sig': {}})
          return {'n': n, 'keys': n, 'viol': viol, 'sample': None}
      if len(set(r['correlation_id'] for r in reqs)) != k:
        viol.append({'clause': 'C15.correlation', 'message': 'concurrent requests share correlation ids %r' % ([r['correlation_id'] for r in reqs],), 'sig': {}})
        break
      if batched:
        # all replies are already in the socket buffer when the receive loop wakes up: it reads them without yielding in between
        for i in order:
          ch.conn.rx += K.frame(K.produce_response(reqs[i]['correlation_id'], [(b'topic%d' % i, [(i, 0, 100 + i)])]))
        ch.conn.wake()
        ch.pump()
      else:
        for i in order:
          ch.reply(K.produce_response(reqs[i]['correlation_id'], [(b'topic%d' % i, [(i, 0, 100 + i)])]))
      for i in range(k):
        resp = ch.term.responses.get('c%d' % i, [])
        rv = resp[0][1].return_value if len(resp) == 1 and resp[0][1] is not None else None
        if not rv or tuple(rv[0]) != (b'topic%d' % i, i, 0, 100 + i):
          viol.append({'clause': 'C15.correlation', 'message': 'reply order %r%s: request %d received %r'
                       % (order, ' (all replies in the socket buffer at once)' if batched else '', i, rv), 'sig': {}})
          break
  return {'n': n, 'keys': n, 'viol': viol, 'sample': {'concurrent_requests': 3, 'reply_orders': 6}}


def main(tier, seed):
  rep = Report(PROP, tier, seed, 'exploration')
  pool = explore.make_pool()
  try:
    pls = PAYLOADS if tier == 'thorough' else PAYLOADS[:5] + PAYLOADS[6:]
    jobs = [([t], PARTITIONS, ACKS, pls) for t in TOPICS]
    if tier == 'quick':
      jobs.append(([b't'], [0], [1], [PAYLOADS[5]]))
    out = explore.pmap('vt.checks.c15', 'check_requests', jobs, pool, seed)
    out += explore.pmap('vt.checks.c15', 'check_responses', [(tier,)], pool, seed)
    out += explore.pmap('vt.checks.c15', 'check_correlation', [()], pool, seed)
    out += explore.pmap('vt.checks.c15', 'check_while_opening', [()], pool, seed)
    out += explore.pmap('vt.checks.c15', 'check_call_forms', [()], pool, seed)
    out += explore.pmap('vt.checks.c15', 'check_small_io', [()], pool, seed)
    out += explore.pmap('vt.checks.c15', 'check_client_ids', [()], pool, seed)
    if tier == 'quick':
      codes = list(range(-40, 140)) + [-32768, -32767, -129, 255, 256, 32766, 32767]
      jobs = [(codes[i:i + 24],) for i in range(0, len(codes), 24)]
    else:
      jobs = [(list(range(lo, lo + 1024)),) for lo in range(-32768, 32768, 1024)]
    out += explore.pmap('vt.checks.c15', 'check_client_errors', jobs, pool, seed)
    # correlation ids of requests whose deadline fires at any point (in the send queue, on the wire), incl. requests issued while the
    # transport connects: the Kafka transport on the adversarial-peer harness of C11, every schedule with <= 3 deviations
    for kname, kp in (('kafka transport: 3 requests issued while it opens, deadlines may fire anywhere',
                       {'proto': 'kafka', 'ops': [['req', 'a', True], ['req', 'b', True], ['req', 'c']], 'max_adversarial': 0, 'early': True}),
                      ('kafka transport: 3 requests, deadlines may fire between two ready callbacks',
                       {'proto': 'kafka', 'ops': [['req', 'a', True], ['req', 'b'], ['req', 'c', True]], 'max_adversarial': 0, 'max_preempt': 1})):
      b = 3 if tier == 'quick' else 4
      agg = explore.explore('vt.checks.c11', 'run_exec', kp, b if 'max_preempt' not in kp else b - 1, seed=seed, pool=pool, split_levels=2)
      agg.violations = [dict(v, clause='C15.correlation', message='Kafka transport: ' + v['message'] + ' (tag = correlation id)')
                        for v in agg.violations if v['clause'] in ('C11.duplicate-tag', 'C11.answered-twice', 'C11.reserved-tag')]
      rep.add_explore(kname, agg, b, params=kp)
  finally:
    pool.close()
    pool.join()
  for o in out:
    rep.add_violations(o['viol'])
    if o.get('sample'):
      rep.sample(o['sample'])
  rep.put('evaluations', sum(o['n'] for o in out))
  rep.put('distinct_nontrivial', sum(o['keys'] for o in out))
  rep.part('kafka requests/responses', engine='E', topics=len(TOPICS), partitions=PARTITIONS, acks=ACKS, payload_lists=len(pls))
  rep.assumptions += ['topic names are bytes (as the repository\'s tests use them); str topics are outside the alphabet',
                      'the metadata *request* is exercised with no topics (what the router sends)']
  return rep.finish(
    rule='full product of topic x partition x acks x payload list through the real serializer and transport, parsed by an independent '
         'Kafka v0 codec (sizes, CRC32, header fields); every produce/metadata response from small domains incl. int64 extremes through '
         'the real decoder; 2-3 concurrent requests with replies in every order; the complete Kafka client against a scripted broker '
         'for every produce error code in [-40, 140) plus int16 extremes (thorough: all 65536 int16 codes)', exhaustive=True)


def replay(path):
  import json
  print(json.dumps(json.load(open(path)), indent=1)[:3000])
  return 0
