"""C09 - failed endpoints fail fast and are used again once reachable.  (engine S over long virtual time)

Full Thrift / ThriftMux clients (public builders, resurrector defaults 5 s -> 60 s, exponent 1.2), one
call per second for a long virtual horizon, prompt in-order network.  The enumerated dimension is the
fault history: the time an endpoint becomes unreachable, what a connect gets while it is down
(refused / no answer), and the time it becomes reachable again on a 0.5 s grid over the whole
horizon (so every phase relative to every retry attempt is hit), plus "never"; thorough: also the time
the client is closed.  Every (history) is one deterministic execution of the real stack.
"""
from .. import explore, peers, simnet, stackharness, vloop, world
from ..report import Report

PROP = 'C09'
MAXI = 60.0
EPS = 1e-6


class Run(object):
  def __init__(self, p):
    import gevent
    self.p = p
    self.lp = vloop.loop()
    self.net = simnet.new_net()
    self.net.kernel_connect_timeout = p.get('kernel_connect_timeout', 20.0)
    self.net.reply_delay = p.get('reply_delay', 0)
    self.server_log = []
    H = stackharness.hello()
    world.SHIMS['aperture'].randint_domain = lambda a, b: [a]
    world.SHIMS['thriftmux'].randint_domain = lambda a, b: [a]
    n = p['endpoints']
    self.addrs = [('h%d' % i, 1000 + i) for i in range(n)]
    for (h, pt) in self.addrs:
      if p['stack'] == 'thrift':
        self.net.add_endpoint(h, pt, lambda net, c: peers.ThriftPeer(net, c, H.Processor, peers.EchoHandler, self.server_log))
      else:
        self.net.add_endpoint(h, pt, lambda net, c: peers.MuxPeer(net, c, H.Processor, peers.EchoHandler, self.server_log))
    if p.get('prior_client'):
      # another client of the same process was configured earlier with its own resurrector (and pool) settings; the client under
      # test uses the stock ones
      from scales.resurrector import ResurrectorSink
      from scales.pool.watermark import WatermarkPoolSink
      ResurrectorSink.Builder(initial_wait_interval=30, max_wait_interval=600, backoff_exponent=1.5)
      WatermarkPoolSink.Builder(max_watermark=1, max_queue_len=1)
    if p['stack'] == 'thrift':
      from scales.thrift.builder import Thrift
      b = Thrift.NewBuilder(H.Iface)
    else:
      from scales.thriftmux.builder import ThriftMux
      b = ThriftMux.NewBuilder(H.Iface, 'cid')
    b.SetUri('tcp://' + ','.join('%s:%d' % a for a in self.addrs))
    b.SetTimeout(p.get('timeout', 0.7525))
    b.SetOpenTimeout(0)
    self.calls = []      # dict(t, ar, arg, done_t, outcome)
    self._pending = []
    self.viol = []
    self.client = None
    self.closed_at = None
    T0 = vloop.EPOCH
    if p.get('down_at') is not None and p['down_at'] <= 0:
      self.net.set_endpoint(self.addrs[0], False, p.get('mode', 'refuse'))
    self.build_g = gevent.spawn(b.Build)
    self.horizon = T0 + p['horizon']
    # scheduled environment actions
    if p.get('down_at') is not None and p['down_at'] > 0:
      self.lp.timer(p['down_at']).start(self._down)
    if p.get('up_at') is not None:
      self.lp.timer(p['up_at']).start(self._up)
    self.up_times = {}
    for ep, t in p.get('downs', {}).items():
      self.lp.timer(t).start(lambda ep=int(ep): self.net.set_endpoint(self.addrs[ep], False, p.get('mode', 'refuse')))
    for ep, t in p.get('ups', {}).items():
      def up(ep=int(ep)):
        self.net.set_endpoint(self.addrs[ep], True)
        self.up_times[ep] = self.lp.now()
      self.lp.timer(t).start(up)
    for ep, t in p.get('ups2', {}).items():
      def up2(ep=int(ep)):
        self.net.set_endpoint(self.addrs[ep], True)
        self.up_time = self.lp.now()
      self.lp.timer(t).start(up2)
    if p.get('close_at') is not None:
      self.lp.timer(p['close_at']).start(self._close)
    gevent.spawn(self._traffic)
    self.lp.monitor = self._monitor

  def _down(self):
    self.net.set_endpoint(self.addrs[0], False, self.p.get('mode', 'refuse'))

  def _up(self):
    self.net.set_endpoint(self.addrs[0], True)
    self.up_time = self.lp.now()

  def _close(self):
    if self.client is not None:
      self.closed_at = self.lp.now()
      self.client.DispatcherClose()

  def _traffic(self):
    import gevent
    gevent.sleep(0.25)
    k = 0
    while self.lp.now() < self.horizon - 1.0:
      if self.client is None and self.build_g.dead and self.build_g.successful():
        self.client = self.build_g.value
      if self.client is not None and self.closed_at is None:
        for j in range(self.p.get('concurrency', 1)):
          arg = 'k%d.%d' % (k, j)
          rec = {'t': self.lp.now(), 'arg': arg, 'done_t': None, 'outcome': None, 'events': self.events}
          try:
            rec['ar'] = self.client.hi_async(arg)
          except Exception as e:  # noqa
            rec['ar'] = None
            rec['outcome'] = 'raised:' + type(e).__name__
            rec['done_t'] = self.lp.now()
          self.calls.append(rec)
          self._pending.append(rec)
      k += 1
      gevent.sleep(self.p.get('traffic_period', 1.0))

  events = 0

  def _monitor(self):
    self.events += 1
    now = self.lp.now()
    if not self._pending:
      return
    still = []
    for c in self._pending:
      if not (c['done_t'] is None and c['ar'] is not None and c['ar'].ready()):
        if c['done_t'] is None and c['ar'] is not None:
          still.append(c)
        continue
      if True:
        c['done_t'] = now
        ar = c['ar']
        if ar.successful():
          c['outcome'] = 'ok' if ar.value == 'echo:' + c['arg'] else 'wrong:%r' % (ar.value,)
        else:
          e = ar.exception
          inner = getattr(e, 'inner_exception', None)
          c['outcome'] = type(inner if inner is not None else e).__name__
        if self.p.get('close_on_error') and self.closed_at is None and c['outcome'] != 'ok':
          # the caller's reaction to its first failed call: it closes the client there and then (in its except block); the caller
          # is a greenlet of its own, woken through the loop like everybody else
          import gevent
          self.closed_at = self.lp.now()
          gevent.spawn(self._close)
    self._pending = still

  def run(self):
    lp = self.lp
    net = self.net
    steps = 0
    while True:
      vloop.run_ready()
      evs = net.enabled_events()
      if evs:
        ev = evs[0]
        variant = 'ok'
        if ev.kind == 'connect':
          ep = net.eps[ev.conn.addr]
          if not ep.up:
            variant = 'refuse' if ep.connect_mode == 'refuse' else 'stall'
        net.fire(ev, variant)
        if ev.kind == 'frame' and variant == 'ok' and ev.meta and ev.meta.get('tag') is not None:
          ev.conn.peer.answered(ev.meta['tag'])
        if ev.kind == 'frame' and variant == 'ok' and ev.meta and ev.meta.get('ping') is not None and self.p.get('hangup_after_ping') is not None \
           and not getattr(self, '_hung_up', False) and lp.now() >= vloop.EPOCH + self.p['hangup_after_ping']:
          # the server answers the handshake ping and hangs up in the same breath (it was only half back)
          self._hung_up = True
          vloop.run_ready(budget=self.p.get('hangup_after_callbacks', 0))      # ... after that many callbacks of the client have run
          net.inject(ev.conn, 'eof')
        continue
      t = lp.next_timer()
      if t is None or t.at > self.horizon:
        break
      lp.fire(t)
      steps += 1
      if steps > 200000:
        self.viol.append({'clause': 'C09.runaway', 'message': 'timer storm', 'sig': {}})
        break
    self.lp.monitor = None
    self.check()
    return self

  # ---- oracle ----------------------------------------------------------------------------------------------------
  def v(self, clause, msg, **sig):
    sig.setdefault('stack', self.p['stack'])
    sig.setdefault('mode', self.p.get('mode'))
    self.viol.append({'clause': clause, 'message': msg, 'sig': sig})

  def check(self):
    p = self.p
    T0 = vloop.EPOCH
    addr = self.addrs[0]
    # down periods of endpoint 0, from environment facts only
    def stale(t, cid):
      # a fault seen on a connection (attempt) that is older than a connection to the same endpoint which was established later
      # and is still healthy says nothing about the endpoint now: it does not start a down period
      return any(c.id > cid and c.addr == addr and c.established_at is not None and c.established_at <= t and
                 (c.first_fault_time is None or c.first_fault_time > t) and not c.reset and not c.eof
                 for c in self.net.conns)
    faults = sorted(t for (t, a, cid) in self.net.fault_log if a == addr and not stale(t, cid))
    stalls = sorted(t for (t, a, cid, out) in self.net.connect_log if a == addr and out == 'stall')
    oks = sorted(t for (t, a, cid, out) in self.net.connect_log if a == addr and out == 'ok')
    attempts = sorted((t, out) for (t, a, cid, out) in self.net.connect_log if a == addr)
    periods = []
    cur = None
    evs = sorted([(t, 'fault') for t in faults] + [(t, 'ok') for t in oks])
    for t, k in evs:
      if k == 'fault' and cur is None:
        cur = t
      elif k == 'ok' and cur is not None:
        if t > cur:
          periods.append((cur, t))
          cur = None
    if cur is not None:
      periods.append((cur, self.horizon + 1))
    self.periods = periods
    others_up = p['endpoints'] > 1
    if p.get('downs') and not p.get('second_outage'):
      # pair histories: the per-member routing is not observable from the API; the fail-fast clause is applied by the
      # single-failure histories, here only "both reachable again => both carry traffic" is judged
      periods_for_calls = []
    else:
      periods_for_calls = periods
    for c in self.calls:
      inside = [pr for pr in periods_for_calls if pr[0] + EPS < c['t'] < pr[1] - EPS]
      if not inside:
        continue
      if self.closed_at is not None and c['t'] >= self.closed_at:
        continue
      dur = (c['done_t'] - c['t']) if c['done_t'] is not None else None
      at_ep0 = [r for r in self.server_log if r.get('arg') == c['arg'] and r.get('addr') == addr]
      if c['outcome'] == 'ok' and others_up and not at_ep0:
        continue          # served by another member
      # a request whose own I/O re-observes the fault on a connection that existed before is "in flight", not routed while down
      if c['outcome'] == 'FailedFastError' and dur is not None and dur < EPS:
        continue
      if others_up and c['outcome'] == 'ok':
        continue
      self.v('C09.not-failed-fast', 'request issued at +%.2f while %s:%d was down (down period +%.2f .. %s) completed with %s after %s s; expected an immediate FailedFastError'
             % (c['t'] - T0, addr[0], addr[1], inside[0][0] - T0, ('+%.2f' % (inside[0][1] - T0)) if inside[0][1] < self.horizon else 'end',
                c['outcome'], ('%.4f' % dur) if dur is not None else 'never'), outcome=c['outcome'])
      break
    # fail-fast is for an endpoint whose connection is down: once a call has been served again, no later call may be failed fast
    # unless the client has seen a new fault in between (single-endpoint histories: every served call went to this endpoint)
    if periods_for_calls is periods and p['endpoints'] == 1:
      served = sorted(c['done_t'] for c in self.calls if c['outcome'] == 'ok' and c['done_t'] is not None)
      for c in self.calls:
        if c['outcome'] != 'FailedFastError' or (self.closed_at is not None and c['t'] >= self.closed_at):
          continue
        before = [t for t in served if t <= c['t'] - EPS]
        if not before or any(before[-1] - 1.0 < f <= c['t'] + EPS for f in faults):
          continue       # nothing served so far, or a fault was seen since (or just before) the last served call
        self.v('C09.fail-fast-while-up', 'request issued at +%.2f was failed fast although %s:%d had served a call at +%.2f and the client '
               'has seen no fault of a current connection since (down periods %r)'
               % (c['t'] - T0, addr[0], addr[1], before[-1] - T0, [(round(a - T0, 2), round(b - T0, 2)) for (a, b) in periods]))
        break
    # reconnection attempts while down: growing gaps, capped.  (Not judged in the histories with three or more members: there the
    # aperture balancer may take a member that is down out of its active set and close its channel, after which nobody is supposed to
    # reconnect to it until the aperture picks it again; the series is judged where the balancer has to keep the member, n <= 2.)
    for (a, b) in (periods if p.get('retry_series', True) else []):
      ts = []
      for (t, out) in attempts:
        if a - EPS <= t <= b + EPS:
          ts.append(t)
          if out == 'ok':
            break        # the attempt that succeeded ends the series; later connects are ordinary traffic (the pool's next connection)
      if self.closed_at is not None:
        ts = [t for t in ts if t <= self.closed_at]
      gaps = [round(ts[i + 1] - ts[i], 6) for i in range(len(ts) - 1)]
      for i, g in enumerate(gaps):
        if g > MAXI + (p.get('kernel_connect_timeout', 20.0) if p.get('mode') == 'stall' else 0.0) + 1e-3:
          self.v('C09.gap-too-long', 'reconnection attempts to %s:%d at %s: gap %.2f s exceeds the maximum interval %.0f s'
                 % (addr[0], addr[1], [round(t - T0, 2) for t in ts], g, MAXI))
          break
        if p.get('concurrency', 1) > 1 and p.get('mode') == 'stall':
          # (with a second pooled connection and hanging connects, connects made by the replaced pool when its own hung attempt
          # finally times out mix into the log; they are not part of the resurrector's retry series, so the growth of the gaps
          # cannot be judged from the connect log alone in these histories)
          continue
        if i > 0 and g < gaps[i - 1] - 1e-3:
          self.v('C09.gap-shrinks', 'reconnection attempts to %s:%d during one down period at %s: gaps %r are not non-decreasing'
                 % (addr[0], addr[1], [round(t - T0, 2) for t in ts], gaps))
          break
      b_eff = min(b, self.closed_at if self.closed_at is not None else b, self.horizon)
      if ts and b_eff - ts[-1] > MAXI + 2.0 + (p.get('kernel_connect_timeout', 20.0) if p.get('mode') == 'stall' else 0.0):
        self.v('C09.stopped-retrying', 'no reconnection attempt to %s:%d between +%.2f and +%.2f while it was down'
               % (addr[0], addr[1], ts[-1] - T0, b_eff - T0))
    # resumes within one max interval (+ one traffic period) after becoming reachable
    up = getattr(self, 'up_time', None)
    if up is not None and (self.closed_at is None or self.closed_at > up + MAXI + 2.0) and up + MAXI + 2.0 < self.horizon \
       and any(pr[0] < up <= pr[1] + EPS for pr in periods):
      slack = MAXI + 2.0 + (p.get('kernel_connect_timeout', 20.0) if p.get('mode') == 'stall' else 0.0)
      if p['endpoints'] == 1:
        reached = [r for r in self.server_log if r.get('addr') == addr and r.get('arg') and up - EPS <= r['time'] <= up + slack]
      else:
        # with other members available the balancer need not route to it; it must be connected (usable) again
        reached = [t for t in oks if up - EPS <= t <= up + slack]
      if not reached and up + slack < self.horizon:
        self.v('C09.not-resumed', '%s:%d became reachable at +%.2f; %s within %.0f s (connect attempts after: %s)'
               % (addr[0], addr[1], up - T0, 'no request reached it' if p['endpoints'] == 1 else 'it was not connected again', slack,
                  [round(t - T0, 2) for (t, out) in attempts if t >= up][:6]))
    # two members failing with overlap, concurrent traffic: once both are reachable again both must carry traffic
    if p.get('downs') and not p.get('second_outage') and len(self.up_times) == len(self.addrs):
      tstar = max(self.up_times.values()) + MAXI + 2.0
      if tstar + 10.0 < self.horizon:
        for i, a in enumerate(self.addrs):
          got = [r for r in self.server_log if r.get('addr') == a and r.get('arg') and tstar <= r['time'] <= tstar + 10.0]
          if not got:
            self.v('C09.not-resumed', 'members went down at %r and were reachable again at %r; %s:%d received no request between +%.1f and +%.1f '
                   'although %d calls are issued concurrently every second'
                   % (p['downs'], dict((k, round(v - T0, 2)) for k, v in self.up_times.items()), a[0], a[1], tstar - T0, tstar + 10 - T0,
                      p.get('concurrency', 1)), pair=True)
            break
    # after Close(): no further connect attempts
    if self.closed_at is not None:
      late = [(round(t - T0, 2), a) for (t, a, cid, out) in self.net.connect_log if t > self.closed_at + EPS]
      if late:
        self.v('C09.connect-after-close', 'client closed at +%.2f; connect attempts afterwards: %r' % (self.closed_at - T0, late[:5]))

  def outcome(self):
    T0 = vloop.EPOCH
    kinds = {}
    for c in self.calls:
      kinds[c['outcome']] = kinds.get(c['outcome'], 0) + 1
    att = [round(t - T0, 1) for (t, a, cid, out) in self.net.connect_log if a == self.addrs[0]]
    return 'calls=%s attempts=%s periods=%s' % (sorted(kinds.items(), key=str), att[:14],
                                                [(round(a - T0, 1), round(b - T0, 1)) for a, b in self.periods][:6])


def run_one(p):
  world.reset()
  r = Run(p)
  r.run()
  seen = set()
  viol = []
  for v in r.viol:
    if v['clause'] not in seen:
      seen.add(v['clause'])
      v = dict(v)
      v['replay'] = {'params': p}
      viol.append(v)
  return {'viol': viol, 'outcome': r.outcome(), 'calls': len(r.calls), 'params': p}


def run_batch(ps):
  return [run_one(p) for p in ps]


def histories(tier):
  out = []
  horizon = 150 if tier == 'quick' else 200
  grid = [x * 0.5 for x in range(1, int((horizon - 65) / 0.5))]
  if tier == 'quick':
    grid = [g for g in grid if (g * 2) % 2 == 1 or g < 30]      # 1 s grid late, 0.5 s grid for the first 30 s
  for stack in ('thrift', 'mux'):
    for n in (1, 2):
      for down_at in (0, 2.25):
        for mode in ('refuse', 'stall'):
          base = {'stack': stack, 'endpoints': n, 'down_at': down_at, 'mode': mode, 'horizon': horizon}
          out.append(dict(base, up_at=None))
          for u in grid:
            if u <= down_at:
              continue
            out.append(dict(base, up_at=u + 0.0125))
      out.append({'stack': stack, 'endpoints': n, 'down_at': None, 'up_at': None, 'horizon': 40})
      # two outages of the same endpoint: down, reachable again (resurrected), down again, reachable again
      for (u1, d2, u2) in ((4.0, 20.35, 40.0), (9.0, 30.35, 33.0), (4.0, 14.35, 60.0)) if tier == 'quick' else \
                          [(u1, u1 + gap + 0.35, u1 + gap + 0.35 + out2) for u1 in (4.0, 9.0, 16.0) for gap in (8.0, 16.0, 30.0) for out2 in (3.0, 12.0, 40.0)]:
        out.append({'stack': stack, 'endpoints': n, 'mode': 'refuse', 'down_at': 2.25, 'up_at': None, 'horizon': 160,
                    'downs': {'0': d2}, 'ups': {'0': u1 + 0.0125}, 'ups2': {'0': u2 + 0.0125}, 'second_outage': True})
    # the endpoint is reachable again, answers the first handshake ping of the reconnect and hangs up at once; then it is really back
    if stack == 'mux':
      for n in (1, 2):
        for up in (6.0, 11.0):
          for k in range(0, 10 if tier == 'quick' else 16):
            out.append({'stack': stack, 'endpoints': n, 'down_at': 2.25, 'mode': 'refuse', 'up_at': up + 0.0125, 'hangup_after_ping': up,
                        'hangup_after_callbacks': k, 'horizon': 160})
    # the caller closes the client in the very moment one of its calls fails
    for n in (1, 2):
      for mode in ('refuse', 'stall'):
        for d in (2.25, 2.75, 7.5):
          out.append({'stack': stack, 'endpoints': n, 'down_at': d, 'mode': mode, 'up_at': None, 'close_on_error': True, 'horizon': 140})
    # a client with the stock settings, built after another client of the same process was given its own
    for up in (40.0, 200.0):
      out.append({'stack': stack, 'endpoints': 1, 'down_at': 2.25, 'mode': 'refuse', 'up_at': up + 0.0125, 'horizon': up + 140, 'prior_client': True})
    # one very long outage (tens of minutes to hours: dozens of failed reconnect attempts at the capped interval), one call every 7 s
    for n in (1, 2):
      for mode in ('refuse', 'stall'):
        for up in ((1500.0, 3000.0) if tier == 'quick' else (900.0, 1500.0, 2100.0, 3000.0, 5400.0, 9000.0)):
          out.append({'stack': stack, 'endpoints': n, 'down_at': 2.25, 'mode': mode, 'up_at': up + 0.0125, 'horizon': up + 140,
                      'traffic_period': 7.0})
    # packets dropped (connects hang until the kernel gives up after 20 s) while the pool is opening a second connection; the endpoint
    # is reachable again before that connect attempt times out
    for n in (1, 2):
      for up in ((6.0, 12.0, 18.0) if tier == 'quick' else (4.0, 6.0, 9.0, 12.0, 15.0, 18.0, 21.0, 24.0)):
        out.append({'stack': stack, 'endpoints': n, 'concurrency': 2, 'reply_delay': 0.9, 'timeout': 2.0025, 'mode': 'stall',
                    'down_at': 2.25, 'up_at': up + 0.0125, 'horizon': 90})
    # two members down with overlap, recovering in either order, two concurrent calls per second
    pts = [6.0, 9.0, 14.0, 22.0, 30.0] if tier == 'quick' else [6.0 + 2.5 * i for i in range(14)]
    for (da, db) in ((2.25, 4.25), (4.25, 2.25)):
      for ua in pts:
        for ub in pts:
          out.append({'stack': stack, 'endpoints': 2, 'concurrency': 3, 'reply_delay': 0.9, 'timeout': 2.0025, 'mode': 'refuse',
                      'downs': {'0': da + 0.1, '1': db + 0.1}, 'ups': {'0': ua + 0.0125, '1': ub + 0.5125}, 'down_at': None, 'up_at': None,
                      'horizon': 130})
    # three members behind the aperture balancer's stock settings (one active member; the jitter timer re-draws the active set every
    # 120..240 s): the active member goes down, the client is closed minutes later
    for c in ((150.0, 300.0) if tier == 'quick' else (100.0, 150.0, 200.0, 250.0, 300.0, 400.0, 500.0)):
      out.append({'stack': stack, 'endpoints': 3, 'down_at': 2.25, 'mode': 'refuse', 'up_at': None, 'close_at': c + 0.0125, 'horizon': c + 140,
                  'retry_series': False})
    # the client is closed while a member is down
    for n in (1, 2):
      for c in ([x * 2.5 for x in range(1, 40)] if tier == 'thorough' else [5.0, 7.5, 12.5, 15.0, 25.0, 27.5, 35.0, 52.5]):
        out.append({'stack': stack, 'endpoints': n, 'down_at': 2.25, 'mode': 'refuse', 'up_at': None, 'close_at': c + 0.0125, 'horizon': 140})
        out.append({'stack': stack, 'endpoints': n, 'down_at': 0, 'mode': 'stall', 'up_at': None, 'close_at': c + 0.0125, 'horizon': 140})
  return out


def main(tier, seed):
  rep = Report(PROP, tier, seed, 'model_checking')
  hs = histories(tier)
  chunks = [hs[i:i + 8] for i in range(0, len(hs), 8)]
  res = explore.pmap('vt.checks.c09', 'run_batch', [(c,) for c in chunks], None, seed)
  outcomes = set()
  ncalls = 0
  n = 0
  for batch in res:
    for r in batch:
      n += 1
      ncalls += r['calls']
      outcomes.add(r['outcome'])
      rep.add_violations(r['viol'])
      if n % 400 == 1:
        rep.sample({'history': r['params'], 'observed': r['outcome']})
  rep.put('evaluations', n)
  rep.put('states', ncalls)
  rep.put('transitions', ncalls)
  rep.put('traces_validated_against_impl', n)
  rep.put('distinct_nontrivial', len(outcomes))
  rep.part('fault histories', engine='S (deterministic schedule per history)', histories=n, calls_issued=ncalls,
           horizon_s=150 if tier == 'quick' else 200, up_grid_s=0.5)
  rep.assumptions += ['prompt in-order network; one call per second at n+0.25 s; resurrector defaults (5 s, 60 s, 1.2)',
                      'down period = from the first instant a client I/O observed the fault until the next successful connect',
                      'a request that itself re-observes the fault on an already established connection is in flight, not routed while down']
  return rep.finish(
    rule='every fault history in the grid (stack x members x down time x connect answer while down x up time on a 0.5 s grid / never '
         '[x close time]) is one execution of the real client over a 150-200 s virtual horizon; states/transitions count the calls '
         'issued (each call is checked against the down periods); distinct = distinct (call outcome histogram, attempt times, periods)',
    exhaustive=True)


def replay(path):
  import json
  world.boot()
  v = json.load(open(path))
  r = run_one(v['replay']['params'])
  print('params:', v['replay']['params'])
  print('outcome:', r['outcome'])
  for x in r['viol']:
    print('VIOLATION-DETAIL', x['clause'], x['message'])
  return 1 if r['viol'] else 0
