"""C08 - transports fail in-flight requests once and report dead connections.  (fault enumeration)

The real thrift.SocketTransportSink and thriftmux.SocketTransportSink are created by their own
providers (ScalesSocket + VarzSocketWrapper over FakeSock) and driven by a fixed script.  A fault-free
pass records the global sequence of socket I/O calls; then there is one execution for every
(I/O call index x fault kind), and - thorough - for every pair of faults.  Fault kinds: exception
(ECONNRESET / ECONNREFUSED), eof, refusal, silence (the peer never answers again).
"""
import itertools
import os
import struct
import sys

from .. import explore, peers, simnet, stubs, vloop, world
from ..refcodec import mux as M
from ..report import Report

PROP = 'C08'
KINDS = ['exception', 'eof', 'silence']


def hello():
  from ..stackharness import hello as h
  return h()


def thrift_payload(arg, seqid=0):
  from thrift.protocol.TBinaryProtocol import TBinaryProtocol
  from thrift.transport.TTransport import TMemoryBuffer
  from thrift.Thrift import TMessageType
  H = hello()
  t = TMemoryBuffer()
  p = TBinaryProtocol(t)
  p.writeMessageBegin('hi', TMessageType.CALL, seqid)
  H.hi_args(test_data=arg).write(p)
  p.writeMessageEnd()
  return t.getvalue()


class Driver(object):
  """Runs one scripted scenario on one transport with at most two injected faults."""
  def __init__(self, params, faults):
    from scales.constants import SinkProperties
    from scales.loadbalancer.zookeeper import Endpoint
    self.p = params
    self.lp = vloop.loop()
    self.net = simnet.new_net()
    self.net.max_recv, self.net.max_send = params.get('max_recv'), params.get('max_send')
    self.net.io_faults = dict(faults or {})
    self.server_log = []
    H = hello()
    self.kind = params['transport']
    withheld = set(params.get('withhold', ()))
    self.withheld = withheld
    if self.kind == 'thrift':
      self.net.add_endpoint('h0', 1000, lambda net, c: peers.ThriftPeer(net, c, H.Processor, peers.EchoHandler, self.server_log))
      from scales.thrift.sink import SocketTransportSink
    else:
      self.net.add_endpoint('h0', 1000, lambda net, c: peers.MuxPeer(net, c, H.Processor, peers.EchoHandler, self.server_log))
      from scales.thriftmux.sink import SocketTransportSink
    world.SHIMS['thriftmux'].randint_domain = lambda a, b: [a]
    self.sink = SocketTransportSink.Builder().CreateSink({SinkProperties.Endpoint: Endpoint('h0', 1000), SinkProperties.Label: 'svc'})
    self.sinkB = None
    if params.get('bystander'):
      # a second transport of the same kind, to another endpoint, alive in the same process; the faults go to the first one
      peer_cls = peers.ThriftPeer if self.kind == 'thrift' else peers.MuxPeer
      self.net.add_endpoint('h1', 1001, lambda net, c: peer_cls(net, c, H.Processor, peers.EchoHandler, self.server_log))
      self.sinkB = SocketTransportSink.Builder().CreateSink({SinkProperties.Endpoint: Endpoint('h1', 1001), SinkProperties.Label: 'svc'})
    self.term = stubs.make_terminal_class()()
    if params.get('reenter'):
      # a consumer that hands the transport the next request from inside the callback that delivers a failure (a retry layer)
      def hook(context, msg):
        if msg is not None and getattr(msg, 'error', None) is not None and 'rr' not in self.reqs and context not in ('rr', 'probe', 'bprobe'):
          self.do_request('rr', direct=True)
      self.term.on_response = hook
    self.reqs = {}
    self.faults_notified = []
    self.sink.on_faulted.Subscribe(lambda v: self.faults_notified.append((self.lp.now(), v)))
    self.open_results = []
    self.viol = []
    self.closed_by_us = False
    self.io_before_probe = None

  def v(self, clause, msg, **sig):
    self.viol.append({'clause': clause, 'message': msg, 'sig': sig})

  # ---- environment: prompt, in order, nothing withheld except what the scenario says ----------------------------
  def run_until(self, t_end):
    lp = self.lp
    net = self.net
    n = 0
    while True:
      vloop.run_ready()
      evs = net.enabled_events()
      fired = False
      for ev in evs:
        if ev.kind == 'frame' and ev.meta and (ev.meta.get('for') in self.withheld_args() or
                                                 (ev.meta.get('ping') is not None and self.ping_withheld(ev))):
          net.pending.remove(ev)       # this reply is never sent
          if ev.meta.get('ping') is not None and getattr(self, 'ping_withheld_at', None) is None:
            self.ping_withheld_at = lp.now()
          fired = True
          break
        net.fire(ev, 'ok')
        if ev.kind == 'frame' and ev.meta and ev.meta.get('tag') is not None:
          ev.conn.peer.answered(ev.meta['tag'])
        fired = True
        break
      if fired:
        continue
      t = lp.next_timer()
      if t is None or t.at > t_end:
        break
      lp.fire(t)
      n += 1
      if n > 5000:
        self.v('C08.runaway', 'timer storm')
        break
    lp.advance_to(t_end)
    vloop.run_ready()

  def withheld_args(self):
    return set('arg-%s' % w for w in self.withheld if not str(w).startswith('ping'))

  def ping_withheld(self, ev):
    # 'ping2' = the second Tping of the connection's life gets no Rping
    peer = ev.conn.peer
    npings = sum(1 for f in peer.frames if f[0] == M.T_PING)
    return ('ping%d' % npings) in self.withheld

  # ---- script actions ------------------------------------------------------------------------------------------------
  def do_open(self, sink=None):
    import gevent
    box = {}
    sink = sink or self.sink

    def opener():
      try:
        ar = sink.Open()
        box['ar'] = ar
        ar.get()
        box['ok'] = True
      except BaseException as e:  # noqa
        box['exc'] = e
    box['g'] = gevent.spawn(opener)
    if sink is self.sink:
      self.open_results.append(box)

  def do_request(self, name, deadline=None, sink=None, direct=False):
    from scales.compat import BytesIO
    from scales.constants import TransportHeaders
    from scales.message import MethodCallMessage, Deadline
    from scales.observable import Observable
    from scales.sink import ClientMessageSinkStack
    arg = 'arg-%s' % name
    if deadline is not None and deadline < 0:
      from scales.constants import ChannelState
      if (sink or self.sink).state != ChannelState.Open:
        return      # (the pools never hand a request to a transport that does not report Open; only the Open case is of interest here)
    msg = MethodCallMessage(None, 'hi', (arg,), {})
    class CountingStack(ClientMessageSinkStack):
      # observation only: how many times the transport completed this request (a second completion is absorbed by
      # the real stack because it is empty by then, but it is still the transport answering twice)
      completions = 0

      def AsyncProcessResponse(self2, stream, msg):
        self2.completions += 1
        ClientMessageSinkStack.AsyncProcessResponse(self2, stream, msg)
    sink = sink or self.sink
    stack = CountingStack()
    stack.Push(self.term, name)
    payload = thrift_payload(arg)
    from scales.constants import ChannelState as _CS
    unanswered = [n for n, r in self.reqs.items() if not self.responses(n) and r.get('sink') is sink]
    rec = {'name': name, 'arg': arg, 'stack': stack, 'msg': msg, 'issued': self.lp.now(), 'deadline': deadline, 'evt': None,
           'timed_out': False, 'conn_fault_before': self._conn_faulted(), 'sink': sink,
           'open_idle_at_issue': sink.state == _CS.Open and not unanswered}
    self.reqs[name] = rec
    headers = {}
    if self.kind == 'thrift':
      if deadline is not None:
        msg.properties[Deadline.KEY] = self.lp.now() + deadline
      buf = BytesIO()
      buf.write(payload)
      sink.AsyncProcessRequest(stack, msg, buf, headers)
    else:
      if deadline is not None:
        evt = Observable()
        msg.properties[Deadline.EVENT_KEY] = evt
        rec['evt'] = evt
        rec['timeout_at'] = self.lp.now() + deadline
      body = M.encode_ctx([]) + struct.pack('>hh', 0, 0) + payload
      buf = BytesIO()
      buf.write(body)
      headers[TransportHeaders.MessageType] = 2
      import gevent
      # the mux transport may block in AsyncProcessRequest while it is still opening
      if direct:
        sink.AsyncProcessRequest(stack, msg, buf, headers)       # synchronously, from inside a callback of the same transport
      else:
        gevent.spawn(sink.AsyncProcessRequest, stack, msg, buf, headers)

  def fire_mux_timeouts(self):
    """What ClientTimeoutSink does above a mux transport: set the deadline event, drain the stack with TimeoutError."""
    from scales.message import MethodReturnMessage, TimeoutError
    for r in self.reqs.values():
      if r.get('evt') is not None and not r['timed_out'] and self.lp.now() >= r['timeout_at'] - 1e-9 \
         and not self.term.responses.get(r['name']):
        r['timed_out'] = True
        r['evt'].Set(True)
        r['stack'].AsyncProcessResponseMessage(MethodReturnMessage(error=TimeoutError()))

  def _conn_faulted(self):
    return bool(self._fault_log()) or any(c.stalled for c in self._conns())

  def _conns(self, port=1000):
    return [c for c in self.net.conns if c.addr[1] == port]

  def _fault_log(self, port=1000):
    return [f for f in self.net.fault_log if f[1][1] == port]

  # ---- the script ------------------------------------------------------------------------------------------------------------
  def run(self):
    p = self.p
    T0 = vloop.EPOCH
    self.do_open()
    if self.sinkB is not None:
      self.do_open(self.sinkB)
    if not p.get('early'):
      self.run_until(T0 + 0.05)
    t = 0.05
    for step in p['script']:
      what = step[0]
      if what == 'req':
        self.do_request(step[1], step[2] if len(step) > 2 else None)
      elif what == 'close':
        self.closed_by_us = True
        self.sink.Close()
      elif what == 'reopen':
        self.closed_by_us = False
        self.do_open()
      elif what == 'wait':
        # advance in small steps so that mux deadline events fire on time
        end = t + step[1]
        while t < end - 1e-9:
          t = min(end, (t + step[2]) if len(step) > 2 else end)
          self.run_until(T0 + t)
          self.fire_mux_timeouts()
          self.run_until(T0 + t)
    self.check()
    return self

  # ---- oracle ----------------------------------------------------------------------------------------------------------------------
  def responses(self, name):
    return self.term.responses.get(name, [])

  def check(self):
    from scales.constants import ChannelState
    from scales.message import MethodCallMessage
    sink = self.sink
    now = self.lp.now()
    fault_log = self._fault_log()
    faulted = bool(fault_log)          # some client I/O observed a fault (raised / EOF / refused)
    silent = any(c.stalled for c in self._conns())
    for name, r in sorted(self.reqs.items()):
      rs = self.responses(name)
      if len(rs) > 1:
        self.v('C08.answered-twice', 'request %s received %d responses: %s' % (name, len(rs), [self._desc(x) for x in rs]))
      elif r['stack'].completions - (1 if r['timed_out'] else 0) > 1:
        self.v('C08.answered-twice', 'the transport completed request %s %d times (first: %s)'
               % (name, r['stack'].completions - (1 if r['timed_out'] else 0), [self._desc(x) for x in rs]))
    state = sink.state
    live = [c for c in self._conns() if c.state == 'established' and not c.client_closed]
    usable = [c for c in live if not c.reset and not c.eof and not c.stalled]
    in_flight = [n for n, r in self.reqs.items() if not self.responses(n) and not n.startswith('b')]
    if faulted and not self.closed_by_us:
      # a fault was observed by the transport's own I/O; unless it reconnected successfully afterwards it must be closed
      reconnected = bool(usable) and usable[-1].established_at is not None and usable[-1].established_at >= fault_log[-1][0]
      if not reconnected:
        if state != ChannelState.Closed:
          self.v('C08.not-closed', 'connection failed (%s) but the transport reports state %s' % (self._faults(), state),
                 transport=self.kind, state=state)
        if not self.faults_notified:
          self.v('C08.no-fault-signal', 'connection failed (%s) but the fault signal was never raised' % self._faults(),
                 transport=self.kind)
        for n in in_flight:
          if self.reqs[n]['timed_out']:
            continue
          self.v('C08.in-flight-not-failed', 'connection failed (%s) but request %s (issued +%.3f) was never answered'
                 % (self._faults(), n, self.reqs[n]['issued'] - vloop.EPOCH), transport=self.kind)
        for box in self.open_results:
          if 'ok' not in box and 'exc' not in box:
            self.v('C08.open-pending', 'connection failed (%s) but an Open() result is still pending' % self._faults(), transport=self.kind)
    # a multiplexed peer that stopped answering pings: once the ping timeout (5 s) has run out the transport must have given up
    pw = getattr(self, 'ping_withheld_at', None)
    if pw is not None and not faulted and not self.closed_by_us and now - pw > 5.0 + 0.5:
      what = 'the peer left a Tping unanswered at +%.3f (now +%.3f)' % (pw - vloop.EPOCH, now - vloop.EPOCH)
      if state != ChannelState.Closed:
        self.v('C08.not-closed', '%s but the transport reports state %s' % (what, state), transport=self.kind, state=state)
      if not self.faults_notified:
        self.v('C08.no-fault-signal', '%s but the fault signal was never raised' % what, transport=self.kind)
      for n in in_flight:
        if not self.reqs[n]['timed_out']:
          self.v('C08.in-flight-not-failed', '%s but request %s (issued +%.3f) was never answered'
                 % (what, n, self.reqs[n]['issued'] - vloop.EPOCH), transport=self.kind)
    # every response given after the connection had failed must be an error
    for name, r in self.reqs.items():
      for (t, msg, stream) in self.responses(name):
        if stream is None and msg is not None and getattr(msg, 'error', None) is None and msg.return_value is None:
          pass
    # ---- probe: a transport that says it is open and idle can carry the next request
    if state == ChannelState.Open and not in_flight and not self.closed_by_us:
      exempt = False
      if live and not usable:
        # the peer closed / reset / went silent while the transport had no I/O that could have told it
        c = live[-1]
        exempt = c.first_fault_time is None
      if not exempt:
        if not live:
          self.v('C08.open-without-connection', 'transport reports Open and idle but holds no established connection (%s)'
                 % self._faults(), transport=self.kind)
        else:
          self.withheld = set()
          self.io_before_probe = self.net.io_count
          # the probe itself runs fault-free: faults scheduled at I/O calls that did not happen before it are void
          self.net.io_faults = dict((i, k) for i, k in self.net.io_faults.items() if i < self.net.io_count)
          self.do_request('probe')
          self.run_until(now + 0.5)
          rs = self.responses('probe')
          good = False
          if rs:
            t, msg, stream = rs[0]
            good = stream is not None and b'echo:arg-probe' in bytes(stream.getvalue())
          if not good:
            self.v('C08.probe-failed', 'transport reported Open and idle (%s) but a fresh request got %s'
                   % (self._faults(), [self._desc(x) for x in rs] or 'no answer'), transport=self.kind)
    # ---- a request handed to a transport that reported Open and idle, in an execution without any connection fault, is carried
    if not self.net.fault_log and not any(c.stalled or c.reset or c.eof for c in self.net.conns) \
       and not any(str(w).startswith('ping') for w in self.p.get('withhold', ())):
      for name, r in sorted(self.reqs.items()):
        rs = self.responses(name)
        if r.get('open_idle_at_issue') and rs and not r['timed_out'] and r.get('deadline') is None:
          t, msg, stream = rs[0]
          err = getattr(msg, 'error', None) if msg is not None else None
          if err is not None and type(err).__name__ != 'TimeoutError':
            self.v('C08.probe-failed', 'no connection fault occurred and the transport reported Open and idle when request %s was handed '
                   'to it at +%.3f, but the request was failed with %s' % (name, r['issued'] - vloop.EPOCH, self._desc(rs[0])), transport=self.kind)
    # ---- the bystander transport: nothing happened to its connection, so it must be unaffected
    if self.sinkB is not None:
      connsB = self._conns(1001)
      untouched = connsB and not self._fault_log(1001) and not any(c.stalled or c.reset or c.eof for c in connsB)
      if untouched:
        if self.sinkB.state != ChannelState.Open:
          self.v('C08.bystander', 'a transport to another endpoint, whose own connection is healthy, reports state %s after the first '
                 'transport\'s connection failed (%s)' % (self.sinkB.state, self._faults()), transport=self.kind)
        else:
          self.withheld = set()
          self.net.io_faults = dict((i, k) for i, k in self.net.io_faults.items() if i < self.net.io_count)
          self.do_request('bprobe', sink=self.sinkB)
          self.run_until(self.lp.now() + 0.5)
          rs = self.responses('bprobe')
          good = bool(rs) and rs[0][2] is not None and b'echo:arg-bprobe' in bytes(rs[0][2].getvalue())
          if not good:
            self.v('C08.bystander', 'a transport to another endpoint, whose own connection is healthy and which reports Open, got %s '
                   'for a fresh request after the first transport\'s connection failed (%s)'
                   % ([self._desc(x) for x in rs] or 'no answer', self._faults()), transport=self.kind)
    errs = [e for e in self.lp.errors if 'GreenletExit' not in e[1]]
    self.greenlet_errors = [(e[1], e[2][:80]) for e in errs[:4]]

  def _faults(self):
    out = ['fault at I/O #%d (%s): %s' % (i, self.net.io_trace[i][1] if i < len(self.net.io_trace) else '?', k)
           for i, k in sorted(self.net.io_faults.items())]
    return ', '.join(out) or 'no fault'

  @staticmethod
  def _desc(x):
    t, msg, stream = x
    if stream is not None:
      return 'reply(%d bytes)' % len(stream.getvalue())
    if msg is not None and getattr(msg, 'error', None) is not None:
      return 'error(%s: %s)' % (type(msg.error).__name__, str(msg.error)[:60])
    return 'message'

  def outcome(self):
    parts = []
    for n in sorted(self.reqs):
      parts.append('%s=%s' % (n, ','.join(self._desc(x) for x in self.responses(n)) or 'none'))
    parts.append('state=%s faults_notified=%d' % (self.sink.state, len(self.faults_notified)))
    return ' '.join(parts)


def run_one(params, faults):
  world.reset()
  world.set_chooser(None)
  d = Driver(params, faults)
  d.run()
  seen = set()
  viol = []
  for v in d.viol:
    if v['clause'] not in seen:
      seen.add(v['clause'])
      v = dict(v)
      v['replay'] = {'params': params, 'faults': sorted(faults.items()) if faults else []}
      v['sig'] = dict(v.get('sig', {}))
      viol.append(v)
  return {'io_trace': d.net.io_trace, 'viol': viol, 'outcome': d.outcome(), 'errors': d.greenlet_errors,
          'io_before_probe': d.io_before_probe if d.io_before_probe is not None else len(d.net.io_trace)}


def run_batch(params, fault_list):
  out = []
  for f in fault_list:
    r = run_one(params, dict(f))
    out.append({'faults': f, 'viol': r['viol'], 'outcome': r['outcome']})
  return out


def run_discard_probe(params):
  """Used by C12: the frames the peer of the scripted scenario received (type, tag), in order, and the per-request outcome."""
  world.reset()
  world.set_chooser(None)
  d = Driver(params, {})
  d.run()
  return {'frames': [list(f) for c in d._conns() for f in c.peer.frames], 'outcome': d.outcome()}


def scripts():
  out = []
  # serial transport
  for dl in (None, 0.2025):
    for withhold in ((), ('r1',)):
      if dl is None and withhold:
        continue      # a silent peer and no deadline: nothing can ever complete, nothing to observe
      out.append(('thrift deadline=%s withheld=%s' % (dl, list(withhold)),
                  {'transport': 'thrift', 'withhold': list(withhold),
                   'script': [['req', 'r1', dl] if dl else ['req', 'r1'], ['wait', 0.5, 0.05], ['req', 'r2'], ['wait', 0.3, 0.05]]}))
  out.append(('thrift two requests colliding',
              {'transport': 'thrift', 'withhold': [],
               'script': [['req', 'r1'], ['req', 'r2'], ['wait', 0.3, 0.05], ['req', 'r3'], ['wait', 0.3, 0.05]]}))
  # multiplexed transport
  out.append(('mux 3 concurrent requests',
              {'transport': 'mux', 'withhold': [],
               'script': [['req', 'r1'], ['req', 'r2', 0.2025], ['req', 'r3'], ['wait', 0.5, 0.05], ['req', 'r4'], ['wait', 0.3, 0.05]]}))
  out.append(('mux one reply withheld, its request times out',
              {'transport': 'mux', 'withhold': ['r2'],
               'script': [['req', 'r1'], ['req', 'r2', 0.2025], ['req', 'r3'], ['wait', 0.5, 0.05], ['req', 'r4'], ['wait', 0.3, 0.05]]}))
  out.append(('mux requests issued while opening',
              {'transport': 'mux', 'withhold': [], 'early': True,
               'script': [['req', 'r1'], ['req', 'r2'], ['wait', 0.5, 0.05]]}))
  out.append(('mux peer stops answering pings with requests in flight',
              {'transport': 'mux', 'withhold': ['ping2', 'r2', 'r3'],
               'script': [['req', 'r1'], ['wait', 29.0], ['req', 'r2'], ['req', 'r3', 0.5025], ['wait', 8.0, 0.5]]}))
  # replies that arrive a few bytes at a time: a fault can hit in the middle of a header or body
  out.append(('thrift, the kernel hands out 5 bytes per recv',
              {'transport': 'thrift', 'withhold': [], 'max_recv': 5,
               'script': [['req', 'r1'], ['wait', 0.3, 0.05], ['req', 'r2'], ['wait', 0.3, 0.05]]}))
  out.append(('mux, the kernel hands out 5 bytes per recv',
              {'transport': 'mux', 'withhold': [], 'max_recv': 5,
               'script': [['req', 'r1'], ['req', 'r2'], ['wait', 0.3, 0.05], ['req', 'r3'], ['wait', 0.3, 0.05]]}))
  # a request that arrives with its deadline already in the past
  out.append(('thrift, a request whose deadline has already passed, then ordinary requests',
              {'transport': 'thrift', 'withhold': [],
               'script': [['req', 'r1'], ['wait', 0.1, 0.05], ['req', 'r2', -0.0525], ['wait', 0.1, 0.05], ['req', 'r3'], ['wait', 0.3, 0.05]]}))
  out.append(('mux, a request whose deadline has already passed, then ordinary requests',
              {'transport': 'mux', 'withhold': [],
               'script': [['req', 'r1'], ['req', 'r2', -0.0525], ['wait', 0.1, 0.05], ['req', 'r3'], ['wait', 0.3, 0.05]]}))
  # a consumer that re-enters the transport from its failure callback
  out.append(('thrift, the consumer issues the next request from inside the failure callback',
              {'transport': 'thrift', 'withhold': [], 'reenter': True,
               'script': [['req', 'r1'], ['wait', 0.3, 0.05], ['req', 'r2'], ['wait', 0.3, 0.05]]}))
  out.append(('mux, the consumer issues the next request from inside the failure callback',
              {'transport': 'mux', 'withhold': [], 'reenter': True,
               'script': [['req', 'r1'], ['req', 'r2'], ['wait', 0.3, 0.05], ['req', 'r3'], ['wait', 0.3, 0.05]]}))
  out.append(('thrift, the consumer issues the next request from inside the callback that delivers a timeout',
              {'transport': 'thrift', 'withhold': ['r1'], 'reenter': True,
               'script': [['req', 'r1', 0.2025], ['wait', 0.5, 0.05], ['req', 'r2'], ['wait', 0.3, 0.05]]}))
  # two transports alive in one process; only the first one's connection is disturbed
  out.append(('mux, second transport to another endpoint stays healthy',
              {'transport': 'mux', 'withhold': [], 'bystander': True,
               'script': [['req', 'r1'], ['req', 'r2', 0.2025], ['wait', 0.5, 0.05], ['req', 'r3'], ['wait', 0.3, 0.05]]}))
  out.append(('thrift, second transport to another endpoint stays healthy',
              {'transport': 'thrift', 'withhold': [], 'bystander': True,
               'script': [['req', 'r1', 0.2025], ['wait', 0.5, 0.05], ['req', 'r2'], ['wait', 0.3, 0.05]]}))
  return out


def main(tier, seed):
  rep = Report(PROP, tier, seed, 'fault_enumeration')
  pool = explore.make_pool()
  total = 0
  outcomes = set()
  try:
    for name, params in scripts():
      base = explore.pmap('vt.checks.c08', 'run_one', [(params, {})], pool, seed)[0]
      n_io = base['io_before_probe']
      rep.add_violations(base['viol'])
      singles = [((i, k),) for i in range(n_io) for k in KINDS + (['refusal', 'timeout-noerrno'] if base['io_trace'][i][1] == 'connect' else [])]
      faults = list(singles)
      # pairs of faults (the second index may address an I/O call that only exists after the first fault, e.g. a reconnect)
      for i in range(n_io):
        for j in range(i + 1, n_io + 6):
          for k1 in ('exception', 'silence'):
            for k2 in ('exception', 'eof', 'silence'):
              faults.append(((i, k1), (j, k2)))
      if tier == 'thorough':
        for i in range(n_io):
          for j in range(i + 1, n_io + 4):
            for l in range(j + 1, n_io + 6):
              for ks in itertools.product(('exception', 'silence'), repeat=3):
                faults.append(((i, ks[0]), (j, ks[1]), (l, ks[2])))
      chunks = [faults[x:x + 40] for x in range(0, len(faults), 40)]
      res = explore.pmap('vt.checks.c08', 'run_batch', [(params, ch) for ch in chunks], pool, seed)
      n = 1
      for batch in res:
        for r in batch:
          n += 1
          outcomes.add((name, r['outcome']))
          rep.add_violations(r['viol'])
      total += n
      rep.part(name, engine='fault enumeration', io_calls=n_io, executions=n, io_trace=[op for (_, op) in base['io_trace']][:60],
               fault_kinds=KINDS + ['refusal, timeout with errno None (connects)'], pairs=True, triples=(tier == 'thorough'))
      rep.sample({'script': name, 'fault_free_outcome': base['outcome']})
  finally:
    pool.close()
    pool.join()
  rep.put('evaluations', total)
  rep.put('distinct_nontrivial', len(outcomes))
  rep.assumptions += ['FakeSock raises on I/O of a socket whose connect failed, as a kernel socket does',
                      'silence = the peer never sends another byte on that connection; for the serial transport without a deadline '
                      'silence is not a detectable failure and nothing is demanded',
                      'a connection the peer broke while the transport was idle and has done no I/O since is exempt from the probe']
  return rep.finish(
    rule='for each scripted scenario: the fault-free run records the global socket I/O call sequence; one execution per (I/O call '
         'index x fault kind) and per pair of faults, thorough: also per triple; distinct = distinct (scenario, per-request responses, final '
         'state) outcomes', exhaustive=True)


def replay(path):
  import json
  world.boot()
  v = json.load(open(path))
  rp = v['replay']
  r = run_one(rp['params'], dict((int(i), k) for i, k in rp['faults']))
  print('I/O trace:', [(i, c, op) for i, (c, op) in enumerate(r['io_trace'])])
  print('outcome:', r['outcome'])
  for x in r['viol']:
    print('VIOLATION-DETAIL', x['clause'], x['message'])
  print('greenlet errors:', r['errors'])
  return 1 if r['viol'] else 0
