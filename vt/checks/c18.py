"""C18 - metrics are neither lost, duplicated nor split across equal sources.

Engine E: every sequence of <= L metric updates over {counter, rate, gauge, timer sample} x sources x
amounts, where *every* update uses a freshly constructed Source object (as the dispatcher does for
every reply), applied to the real VarzReceiver / VarzAggregator and compared with a dict keyed by
the source's field tuple.  Plus every sample stream up to a length over a small value set with the
reservoir's random() as an enumerated choice (reservoir size set to 3 so replacement happens).
"""
import itertools

from .. import explore, vloop, world  # noqa
from ..report import Report

PROP = 'C18'

TUPLES = [('method-1', 'service-1', 'host-1:8080', None), ('method-1', 'service-1', 'host-2:8080', None),
          ('method-1', 'service-2', 'host-1:8080', None), ('method-2', 'service-1', 'host-1:8080', 'client-id')]


def fresh(t, assign=False):
  """A Source whose field values are equal to t but are *new string objects*, as they are when the dispatcher builds
  them at run time ('%s:%d' % (host, port), str(endpoint)).  assign=True: the fields are set on an empty Source after
  construction (they are public attributes)."""
  from scales.varz import Source
  vals = [None if x is None else (x + '#')[:-1] for x in t]
  if not assign:
    return Source(*vals)
  s = Source()
  s.method, s.service, s.endpoint, s.client_id = vals
  return s
AMOUNTS = [0, 1, 2]

_V = None


def varz_cls():
  global _V
  if _V is None:
    from scales.varz import VarzBase, Counter, Rate, Gauge, AverageTimer

    class V(VarzBase):
      _VARZ_BASE_NAME = 'verif.c18'
      _VARZ = {'c': Counter, 'r': Rate, 'g': Gauge, 't': AverageTimer}
    _V = V
  return _V


def ops_alphabet():
  ops = []
  for kind in ('c', 'r', 'g', 't'):
    for ti in range(len(TUPLES)):
      for a in AMOUNTS:
        for style in ((0, 1, 2) if kind == 'c' else (0, 2) if kind == 'g' else (0,)):
          ops.append((kind, ti, a, style))
  return ops


def run_sequences(first_ops, length):
  """All sequences of `length` updates whose first op is in first_ops.  Returns stats + violations."""
  from scales.varz import Source, VarzReceiver, VarzAggregator
  V = varz_cls()
  ops = ops_alphabet()
  viol = []
  n = 0
  keys = set()
  sample = None
  names = {k: 'verif.c18.' + k for k in 'crgt'}
  for first in first_ops:
    for rest in itertools.product(ops, repeat=length - 1):
      seq = (first,) + rest
      VarzReceiver.VARZ_DATA.clear()
      model = {'c': {}, 'r': {}, 'g': {}, 't': {}}
      for (kind, ti, a, style) in seq:
        src = fresh(TUPLES[ti], assign=(style == 2))             # fresh object, fresh field strings, every time
        if style == 1:
          getattr(V(src), kind)(a)          # instance form (bound to a source)
        else:
          getattr(V, kind)(src, a)          # class form (explicit source)
        if kind in ('c', 'r'):
          model[kind][TUPLES[ti]] = model[kind].get(TUPLES[ti], 0) + a
        elif kind == 'g':
          model['g'][TUPLES[ti]] = a
        else:
          model['t'].setdefault(TUPLES[ti], []).append(a)
      n += 1
      bad = None
      # series count bounded by distinct sources
      for kind in 'crgt':
        series = VarzReceiver.VARZ_DATA.get(names[kind], {})
        if len(series) > len(model[kind]):
          bad = ('C18.series-split', '%d series for %d distinct sources in metric %s' % (len(series), len(model[kind]), kind))
          break
      if bad is None:
        for t, v in model['g'].items():
          got = VarzReceiver.VARZ_DATA[names['g']].get(fresh(t), 'MISSING')
          if got != v:
            bad = ('C18.gauge', 'gauge for %r reads %r, last value set was %r' % (t, got, v))
            break
      if bad is None:
        agg = VarzAggregator.Aggregate(VarzReceiver.VARZ_DATA, VarzReceiver.VARZ_METRICS)
        for kind in 'cr':
          want = {}
          for t, v in model[kind].items():
            want[(t[1], t[3])] = want.get((t[1], t[3]), 0) + v
          got = {k: a.total for k, a in agg.get(names[kind], {}).items()}
          if got != want:
            bad = ('C18.sum', 'aggregate of %s is %r, sum of increments is %r' % (kind, got, want))
            break
      if bad is None and model['t']:
        agg = VarzAggregator.Aggregate(VarzReceiver.VARZ_DATA, VarzReceiver.VARZ_METRICS,
                                       key_selector=lambda k: k.to_tuple())
        for t, vals in model['t'].items():
          a = agg.get(names['t'], {}).get(t)
          if a is None:
            bad = ('C18.sum', 'no percentile aggregate for source %r' % (t,))
            break
          pcts = a.total[1:]
          if any(p < min(vals) - 1e-9 or p > max(vals) + 1e-9 for p in pcts) or \
             any(pcts[i] > pcts[i + 1] + 1e-9 for i in range(len(pcts) - 1)):
            bad = ('C18.percentile', 'percentiles %r for samples %r' % (pcts, vals))
            break
      keys.add(tuple(sorted((k, tuple(sorted(v))) for k, v in model.items() if v)))
      if sample is None and len(model['c']) > 1:
        sample = [list(o) for o in seq]
      if bad:
        viol.append({'clause': bad[0], 'message': bad[1] + '; update sequence %r' % (seq,),
                     'sig': {}, 'replay': {'sequence': [list(o) for o in seq]}})
        if len(viol) > 5:
          return {'n': n, 'keys': len(keys), 'viol': viol, 'sample': sample}
        break
  return {'n': n, 'keys': len(keys), 'viol': viol, 'sample': sample}


_V2 = None


def varz_cls2():
  """A second metric class with the same metric suffixes under another base name (as the thrift and thriftmux transports have)."""
  global _V2
  if _V2 is None:
    from scales.varz import VarzBase, Counter, Rate, Gauge, AverageTimer

    class VB(VarzBase):
      _VARZ_BASE_NAME = 'verif.c18b'
      _VARZ = {'c': Counter, 'r': Rate, 'g': Gauge, 't': AverageTimer}
    _V2 = VB
  return _V2


def run_two_classes(length):
  """Two metric classes with equal suffixes, used with equal sources in every order: every update lands in the series of the
  class it was made through.  All sequences of `length` updates over (class, kind, source, form)."""
  from scales.varz import VarzReceiver
  VA, VB = varz_cls(), varz_cls2()
  base = {0: 'verif.c18.', 1: 'verif.c18b.'}
  ops = [(cls, kind, ti, style) for cls in (0, 1) for kind in ('c', 'g') for ti in (0, 1) for style in (0, 1)]
  viol = []
  n = 0
  for seq in itertools.product(ops, repeat=length):
    if len(set(o[0] for o in seq)) < 2:
      continue
    n += 1
    VarzReceiver.VARZ_DATA.clear()
    model = {}
    for step, (cls, kind, ti, style) in enumerate(seq):
      V = (VA, VB)[cls]
      src = fresh(TUPLES[ti])
      amount = step + 1
      if style == 1:
        getattr(V(src), kind)(amount)
      else:
        getattr(V, kind)(src, amount)
      key = (base[cls] + kind, TUPLES[ti])
      model[key] = model.get(key, 0) + amount if kind == 'c' else amount
    got = {}
    for name, series in VarzReceiver.VARZ_DATA.items():
      if name.startswith('verif.c18'):
        for src, v in series.items():
          got[(name, src.to_tuple())] = v
    if got != model:
      viol.append({'clause': 'C18.sum', 'message': 'two metric classes with the same suffixes: recorded %r, updates made %r; sequence %r'
                   % (sorted(got.items()), sorted(model.items()), seq), 'sig': {'two_classes': True}})
      break
  return {'n': n, 'keys': n, 'viol': viol, 'sample': {'two_classes_sequences': n}}


def run_concurrent(length):
  """Aggregation yields to the loop before each metric; updates made by other greenlets land in between.  For every sequence of
  `length` counter/rate increments (to a source that already has a series and to one that does not) and every placement of those
  increments before / between / after the aggregation's steps, the total reported for a metric must be the total of some prefix
  of the increments to that metric (amounts are distinct powers of two, so every prefix has its own total)."""
  import gevent
  from scales.varz import VarzReceiver, VarzAggregator
  V = varz_cls()
  names = {k: 'verif.c18.' + k for k in 'cr'}
  ops = [(kind, ti) for kind in 'cr' for ti in (0, 1)]
  viol = []
  n = 0
  for seq in itertools.product(ops, repeat=length):
    amounts = [2 << i for i in range(length)]
    for slots in itertools.combinations_with_replacement(range(4), length):     # slot of each increment: 0 = before the aggregation starts
      n += 1
      VarzReceiver.VARZ_DATA.clear()
      for kind in 'cr':
        getattr(V, kind)(fresh(TUPLES[0]), 1)        # both metrics exist, with one series each
      box = {}

      def agg():
        box['agg'] = VarzAggregator.Aggregate(VarzReceiver.VARZ_DATA, VarzReceiver.VARZ_METRICS)
      done = 0

      def apply_slot(k):
        nonlocal done
        while done < length and slots[done] == k:
          kind, ti = seq[done]
          getattr(V, kind)(fresh(TUPLES[ti]), amounts[done])
          done += 1
      apply_slot(0)
      g = gevent.spawn(agg)
      step = 1
      while not g.dead and step < 20:
        vloop.run_ready(budget=1)
        apply_slot(min(step, 3) if step <= 2 else 3)
        step += 1
      vloop.run_ready()
      apply_slot(3)
      bad = None
      if 'agg' not in box:
        bad = 'the aggregation did not finish (%r)' % ([(e[1], str(e[2])[:60]) for e in vloop.loop().errors[:1]],)
      else:
        for kind in 'cr':
          got = dict((k, a.total) for k, a in box['agg'].get(names[kind], {}).items())
          mine = [amounts[i] for i in range(length) if seq[i][0] == kind]
          ok_totals = [1 + sum(mine[:k]) for k in range(len(mine) + 1)]
          total = got.get(('service-1', None))
          if total not in ok_totals or len(got) != 1:
            bad = 'metric %s: aggregate %r; increments to it, in order: 1 then %r - no prefix of them has that total' % (kind, got, mine)
            break
      if bad:
        viol.append({'clause': 'C18.sum', 'message': 'updates %r with amounts %r placed at aggregation steps %r: %s' % (seq, amounts, slots, bad),
                     'sig': {'concurrent': True}})
        if len(viol) >= 3:
          return {'n': n, 'keys': n, 'viol': viol, 'sample': None}
  return {'n': n, 'keys': n, 'viol': viol, 'sample': {'concurrent_aggregations': n}}


def run_streams(first_vals, length, values):
  """Every sample stream of `length` values (first fixed) x every outcome of the reservoir's random()."""
  from scales.varz import Source, VarzReceiver, VarzAggregator
  V = varz_cls()
  old = VarzReceiver._MAX_PERCENTILE_SIZE
  VarzReceiver._MAX_PERCENTILE_SIZE = 3
  n = 0
  viol = []
  outcomes = set()
  sample = None
  try:
    for first in first_vals:
      for rest in itertools.product(values, repeat=length - 1):
        stream = (first,) + rest
        stack = [[]]
        while stack:
          pfx = stack.pop()
          VarzReceiver.VARZ_DATA.clear()
          ch = world.Chooser(pfx)
          world.set_chooser(ch)
          for v in stream:
            V.t(fresh(('method-x', 'service-x', 'host-x:1', None)), v)
          world.set_chooser(None)
          for i in range(len(pfx), len(ch.points)):
            for alt in range(1, len(ch.points[i].labels)):
              stack.append(ch.choices[:i] + [alt])
          n += 1
          res = VarzReceiver.VARZ_DATA['verif.c18.t']
          if len(res) != 1:
            viol.append({'clause': 'C18.series-split', 'message': '%d series for one source; stream %r' % (len(res), stream),
                         'sig': {}, 'replay': {'stream': list(stream), 'choices': ch.choices}})
            break
          retained = list(list(res.values())[0].data)
          agg = VarzAggregator.Aggregate(VarzReceiver.VARZ_DATA, VarzReceiver.VARZ_METRICS)
          tot = agg['verif.c18.t'][('service-x', None)].total
          pcts = tot[1:]
          outcomes.add((tuple(retained), tuple(pcts)))
          if sample is None and len(ch.points) >= 2:
            sample = {'stream': list(stream), 'reservoir_choices': ch.trace(), 'retained': retained, 'percentiles': pcts}
          ok = all(min(retained) - 1e-9 <= p <= max(retained) + 1e-9 for p in pcts) and \
            all(pcts[i] <= pcts[i + 1] + 1e-9 for i in range(len(pcts) - 1)) and \
            all(x in stream for x in retained) and len(retained) == min(3, len(stream))
          if not ok:
            viol.append({'clause': 'C18.percentile', 'message': 'stream %r retained %r percentiles %r' % (stream, retained, pcts),
                         'sig': {}, 'replay': {'stream': list(stream), 'choices': ch.choices}})
            break
        if len(viol) > 3:
          break
  finally:
    VarzReceiver._MAX_PERCENTILE_SIZE = old
    world.set_chooser(None)
  return {'n': n, 'keys': len(outcomes), 'viol': viol, 'sample': sample}


def run_aging(n_streams):
  """A series that keeps receiving samples must keep reporting percentiles from its retained samples however old its
  first samples are: fill the reservoir (size 3), let the low-resolution clock pass MAX_AGG_AGE, keep sampling (every
  outcome of the reservoir coin), aggregate."""
  from scales.varz import VarzReceiver, VarzAggregator
  import scales.varz as varz
  V = varz_cls()
  old = VarzReceiver._MAX_PERCENTILE_SIZE
  VarzReceiver._MAX_PERCENTILE_SIZE = 3
  viol = []
  n = 0
  lp = vloop.loop()
  try:
    for pre in ([5], [9, 1], [1, 5, 9], [5, 5, 9, 1], [9, 1, 5, 5, 1]):      # the first two: the reservoir is still filling when time passes
      for post in ([5], [9, 1], [1, 5, 9]):
        stack = [[]]
        while stack:
          pfx = stack.pop()
          world.reset()
          VarzReceiver.VARZ_DATA.clear()
          ch = world.Chooser(pfx)
          world.set_chooser(ch)
          src = ('method-x', 'service-x', 'host-x:1', None)
          for v in pre:
            V.t(fresh(src), v)
          # let 301 s of virtual time pass (the low-resolution clock ticks once a second)
          target = lp.now() + varz.VarzAggregator.MAX_AGG_AGE + 1.5
          while True:
            vloop.run_ready()
            t = lp.next_timer()
            if t is None or t.at > target:
              break
            lp.fire(t)
          lp.advance_to(target)
          vloop.run_ready()
          n_pre = len(ch.points)
          for v in post:
            V.t(fresh(src), v)
          world.set_chooser(None)
          for i in range(len(pfx), len(ch.points)):
            for alt in range(1, len(ch.points[i].labels)):
              stack.append(ch.choices[:i] + [alt])
          n += 1
          res = VarzReceiver.VARZ_DATA['verif.c18.t']
          retained = list(list(res.values())[0].data)
          agg = VarzAggregator.Aggregate(VarzReceiver.VARZ_DATA, VarzReceiver.VARZ_METRICS)
          a = agg['verif.c18.t'].get(('service-x', None))
          pcts = a.total[1:] if a is not None else None
          ok = pcts is not None and all(min(retained) - 1e-9 <= p <= max(retained) + 1e-9 for p in pcts)
          # if the reservoir coin rejected every late sample the series has not changed for MAX_AGG_AGE and may be aged out
          # (the statement does not speak about ageing); once a late sample was retained the series is current
          accepted_late = len(pre) < 3 or any(lbl.endswith('random=low') for lbl in ch.trace()[n_pre:])
          if not ok and accepted_late:
            viol.append({'clause': 'C18.percentile', 'message': 'series sampled %r, then (after %d s) %r retains %r but reports percentiles %r'
                         % (pre, varz.VarzAggregator.MAX_AGG_AGE + 1, post, retained, pcts), 'sig': {'aging': True}})
            return {'n': n, 'keys': n, 'viol': viol, 'sample': None}
  finally:
    VarzReceiver._MAX_PERCENTILE_SIZE = old
    world.set_chooser(None)
  return {'n': n, 'keys': n, 'viol': viol, 'sample': {'aging': 'reservoir refreshed across MAX_AGG_AGE', 'runs': n}}


def run_e2e(stack, ncalls):
  """End to end: the real client built by the public builder, 2 endpoints, ncalls calls; the dispatcher constructs a fresh
  Source for every reply.  Series per dispatcher metric are bounded by the distinct (method, service, endpoint) tuples and the
  per-service totals equal the number of calls / successes."""
  from .. import stackharness
  from scales.varz import VarzReceiver, VarzAggregator
  params = {'stack': stack, 'endpoints': 2, 'ops': [('call', 'v%d' % i) for i in range(ncalls)], 'faults': [], 'timeout': 0.5025,
            'horizon': 2.0}
  r = stackharness.run_exec(params, [], None)
  viol = []
  data = VarzReceiver.VARZ_DATA
  ok_calls = r['outcome'].count(':ok@')
  try:
    agg = VarzAggregator.Aggregate(data, VarzReceiver.VARZ_METRICS)
  except Exception as e:  # noqa
    agg = {}
    viol.append({'clause': 'C18.e2e-sum', 'message': '%s stack: aggregating after %d calls raised %s: %s' % (stack, ncalls, type(e).__name__, e), 'sig': {}})
  svc = 'hello.Hello'
  def total(metric):
    return sum(a.total for k, a in agg.get(metric, {}).items() if k[0] == svc)
  disp = total('scales.MessageDispatcher.dispatch_messages')
  succ = total('scales.MessageDispatcher.success_messages')
  if disp != ncalls or succ != ok_calls or ok_calls != ncalls:
    viol.append({'clause': 'C18.e2e-sum', 'message': '%s stack: %d calls issued, %d succeeded; aggregated dispatch_messages=%r success_messages=%r'
                 % (stack, ncalls, ok_calls, disp, succ), 'sig': {}})
  for metric in ('scales.MessageDispatcher.success_messages', 'scales.MessageDispatcher.request_latency',
                 'scales.MessageDispatcher.dispatch_messages'):
    series = data.get(metric, {})
    distinct = set(s.to_tuple() for s in series)
    if len(series) > len(distinct) or len(series) > 2:
      viol.append({'clause': 'C18.e2e-series', 'message': '%s stack: %d series in %s after %d calls to 2 endpoints (distinct sources: %d)'
                   % (stack, len(series), metric, ncalls, len(distinct)), 'sig': {}})
  return {'n': ncalls, 'keys': len(data), 'viol': viol,
          'sample': {'end_to_end': stack, 'calls': ncalls, 'series_success_messages': len(data.get('scales.MessageDispatcher.success_messages', {}))}}


def main(tier, seed):
  rep = Report(PROP, tier, seed, 'exploration')
  ops = ops_alphabet()
  L = 3 if tier == 'quick' else 4
  pool = explore.make_pool()
  try:
    jobs = []
    for length in range(1, L + 1):
      for o in ops:
        jobs.append(([o], length))
    out = explore.pmap('vt.checks.c18', 'run_sequences', jobs, pool, seed)
    n = sum(o['n'] for o in out)
    rep.add('evaluations', n)
    rep.add('distinct_nontrivial', sum(o['keys'] for o in out))
    for o in out:
      rep.add_violations(o['viol'])
      if o['sample']:
        rep.sample({'update_sequence (kind, source#, amount, form)': o['sample']})
    rep.part('update sequences', engine='E', max_length=L, alphabet=len(ops), sequences=n,
             sources=[list(map(str, t)) for t in TUPLES])
    values = [0, 1, 5, 9]
    SL = 6 if tier == 'quick' else 8
    jobs = []
    for length in range(1, SL + 1):
      for v in values:
        jobs.append(([v], length, values))
    out = explore.pmap('vt.checks.c18', 'run_streams', jobs, pool, seed)
    n2 = sum(o['n'] for o in out)
    rep.add('evaluations', n2)
    rep.add('distinct_nontrivial', sum(o['keys'] for o in out))
    for o in out:
      rep.add_violations(o['viol'])
      if o['sample']:
        rep.sample(o['sample'])
    rep.part('sample streams', engine='E', max_length=SL, values=values, reservoir_size=3, executions=n2)
    out = explore.pmap('vt.checks.c18', 'run_aging', [(1,)], pool, seed)
    for o in out:
      rep.add('evaluations', o['n'])
      rep.add_violations(o['viol'])
      if o['sample']:
        rep.sample(o['sample'])
    rep.part('busy series across MAX_AGG_AGE', engine='E', runs=sum(o['n'] for o in out))
    out = explore.pmap('vt.checks.c18', 'run_e2e', [('thrift', 12), ('mux', 12), ('thrift', 40 if tier == 'thorough' else 20)], pool, seed)
    for o in out:
      rep.add('evaluations', o['n'])
      rep.add_violations(o['viol'])
      rep.sample(o['sample'])
    rep.part('end to end through the real dispatcher', engine='S (default schedule)', runs=len(out))
    out = explore.pmap('vt.checks.c18', 'run_two_classes', [(2,), (3,)] if tier == 'quick' else [(2,), (3,), (4,)], pool, seed)
    for o in out:
      rep.add('evaluations', o['n'])
      rep.add_violations(o['viol'])
      rep.sample(o['sample'])
    rep.part('two metric classes with equal suffixes and equal sources', engine='E', sequences=sum(o['n'] for o in out))
    out = explore.pmap('vt.checks.c18', 'run_concurrent', [(1,), (2,), (3,)] if tier == 'quick' else [(1,), (2,), (3,), (4,)], pool, seed)
    for o in out:
      rep.add('evaluations', o['n'])
      rep.add_violations(o['viol'])
      if o['sample']:
        rep.sample(o['sample'])
    rep.part('increments made while an aggregation is in progress', engine='E', runs=sum(o['n'] for o in out))
  finally:
    pool.close()
    pool.join()
  rep.assumptions += ['reservoir size lowered to 3 (VarzReceiver._MAX_PERCENTILE_SIZE) so that replacement is reached',
                      'sample ages below MAX_AGG_AGE (virtual clock does not advance during a sequence)']
  return rep.finish(
    rule='all sequences of <=L updates over 40 (kind, source, amount, call form) operations, each with a freshly '
         'constructed Source; all sample streams <=SL over 4 values x every reservoir random() outcome; distinct = '
         'distinct reference-model end states / (retained set, percentiles) pairs',
    exhaustive=True)


def replay(path):
  import json
  print(json.dumps(json.load(open(path)), indent=1))
  return main('quick', 0)
