"""C16 - singleton pool and shared sinks keep one connection, opened and closed once.  (Engine B)

Three sub-harnesses over stub sinks/providers, each explored breadth-first by history replay:
  singleton : real SingletonPoolSink; ops Open / Close / Req / Done(rid) / Fault(conn) / OpenOk(conn) / OpenFail(conn)
  refcount  : real RefCountedSink;    ops Open(holder) / Close(holder) by 3 holders, surplus closes, close before open
  shared    : real SharedSinkProvider; ops Create(key) for keys {k1, k2, None} / Drop(ref) / gc
"""
import gc

from .. import bfs, stubs, vloop, world
from ..report import Report

PROP = 'C16'


class Single(object):
  def __init__(self, params):
    from scales.constants import SinkProperties
    from scales.pool.singleton import SingletonPoolSink
    self.p = params
    self.lp = vloop.loop()
    self.reg = stubs.Registry()
    self.reg.default_open = params.get('open_mode', 'ok')
    self.reg.reopen_ok = False
    if params.get('busy'):
      # an underlying sink that reports Busy (part of the ChannelState vocabulary: open, one request outstanding) while it carries a request
      from scales.constants import ChannelState
      world_self = self
      base_state = self.reg.cls.state

      def state(ch):
        st = base_state.fget(ch)
        if st == ChannelState.Open and any(r['serial'] == ch.serial and not r['done'] for r in world_self.reqs):
          return ChannelState.Busy
        return st
      self.reg.cls.state = property(state)
    b = SingletonPoolSink.Builder()
    b.next_provider = stubs.StubProvider(self.reg)
    self.pool = b.CreateSink({SinkProperties.Endpoint: stubs.make_endpoint(0), SinkProperties.Label: 'svc'})
    self.term = stubs.make_terminal_class()()
    self.reqs = []
    self.viol = []
    self.opens = 0
    self.closes = 0
    self.faults = []
    self.pool.on_faulted.Subscribe(lambda v: self.faults.append(v))
    self.n_faults = 0
    reg = self.reg
    base = reg.on_request

    def on_request(ch, rid, sink_stack, msg):
      from scales.constants import ChannelState
      from scales.message import MethodReturnMessage
      base(ch, rid, sink_stack, msg)
      if ch.state == ChannelState.Closed:
        sink_stack.AsyncProcessResponseMessage(MethodReturnMessage(error=Exception('connection not open')))
    reg.on_request = on_request

  def v(self, clause, msg):
    self.viol.append({'clause': clause, 'message': msg, 'sig': {}})

  def live(self):
    from scales.constants import ChannelState
    return [c for c in self.reg.channels if c.state != ChannelState.Closed and c.close_calls == 0]

  def apply(self, op):
    import gevent
    from scales.constants import ChannelState
    name = op[0]
    if name == 'Open':
      self.opens += 1
      gevent.spawn(self.pool.Open)
    elif name == 'Close':
      self.closes += 1
      self.pool.Close()
    elif name == 'Req':
      from scales.message import MethodCallMessage
      from scales.sink import ClientMessageSinkStack
      rid = len(self.reqs) + 1
      msg = MethodCallMessage(None, 'm', (), {})
      msg.properties['__rid'] = rid
      st = ClientMessageSinkStack()
      st.Push(self.term, rid)
      # a connection that had failed before this request arrived must not be used for it
      dead_before = [c.serial for c in self.reg.channels if c.state == ChannelState.Closed]
      g = gevent.spawn(self.pool.AsyncProcessRequest, st, msg, None, {})
      self.reqs.append({'rid': rid, 'stack': st, 'g': g, 'dead_before': dead_before, 'serial': None, 'done': False})
    elif name == 'Done':
      from scales.message import MethodReturnMessage
      r = self.reqs[op[1] - 1]
      r['stack'].AsyncProcessResponseMessage(MethodReturnMessage(return_value=1))
    elif name == 'Fault':
      self.n_faults += 1
      ch = self.reg.channels[op[1]]
      from scales.message import MethodReturnMessage
      from scales.constants import ChannelState
      if ch.state == ChannelState.Closed:
        ch.refaulted = getattr(ch, 'refaulted', 0) + 1
      busy = [r for r in self.reqs if r['serial'] == ch.serial and not r['done']]
      ch.fault('died')
      for r in busy:
        r['stack'].AsyncProcessResponseMessage(MethodReturnMessage(error=Exception('reset')))
    elif name == 'Kill':
      # the caller of a request that is still waiting inside the pool (for the connection to open) is killed / times out
      r = self.reqs[op[1] - 1]
      r['killed'] = True
      r['g'].kill(block=False)
    elif name == 'OpenOk':
      self.reg.channels[op[1]].finish_open(True)
    elif name == 'OpenFail':
      self.reg.channels[op[1]].finish_open(False)
    vloop.run_ready()
    started = {}
    for (ev, s, rid) in self.reg.request_log:
      started.setdefault(rid, s)
    for r in self.reqs:
      if r['serial'] is None and r['rid'] in started:
        r['serial'] = started[r['rid']]
        if r['serial'] in r['dead_before']:
          self.v('C16.singleton-stale', 'request %d was sent on connection #%d which had failed before the request arrived'
                 % (r['rid'], r['serial']))
      r['done'] = bool(self.term.responses.get(r['rid']))
      if len(self.term.responses.get(r['rid'], [])) > 1:
        self.v('C16.singleton-dup', 'request %d answered twice' % r['rid'])
    if len(self.live()) > 1:
      self.v('C16.singleton-two', 'after %r: %d live underlying connections: %r' % (op, len(self.live()), [c.serial for c in self.live()]))
    if self.lp.errors:
      e = self.lp.errors[0]
      # a failed open surfaces as an error in the opening greenlet; that is an error result, not a defect
      self.lp.errors = []
    if self.lp.quiescent() and self.closes == 0:
      # (what happens to a request that is in flight while the pool is closed is outside this statement)
      stuck = [r for r in self.reqs if r['serial'] is None and not r['done'] and r['g'].dead and not r.get('killed')]
      if stuck:
        self.v('C16.singleton-lost', 'after %r: request(s) %r neither sent nor answered' % (op, [r['rid'] for r in stuck]))

  def enabled(self):
    p = self.p
    ops = []
    if self.opens < p['max_opens']:
      ops.append(['Open'])
    if self.closes < self.opens + p.get('surplus', 0) and self.closes < p['max_opens'] + p.get('surplus', 0):
      ops.append(['Close'])
    if len(self.reqs) < p['max_reqs']:
      ops.append(['Req'])
    for r in self.reqs:
      if r['serial'] is not None and not r['done']:
        ops.append(['Done', r['rid']])
      elif p.get('kill') and r['serial'] is None and not r['done'] and not r['g'].dead and not any(x.get('killed') for x in self.reqs):
        ops.append(['Kill', r['rid']])
    if self.n_faults < p['max_faults']:
      for c in self.live():
        if not c.open_ars:
          ops.append(['Fault', c.serial])
      # a connection that has already failed raises its fault signal once more (duplicate / late notification)
      from scales.constants import ChannelState
      for c in self.reg.channels:
        if c.state == ChannelState.Closed and c.close_calls == 0 and getattr(c, 'refaulted', 0) < 1 and self.n_faults > 0:
          ops.append(['Fault', c.serial])
    for c in self.reg.channels:
      if c.open_ars:
        ops.append(['OpenOk', c.serial])
        ops.append(['OpenFail', c.serial])
    return ops

  def key(self):
    ch = tuple((c.state, c.close_calls, len(c.open_ars), c.open_calls, self.pool.next_sink is c, getattr(c, 'refaulted', 0)) for c in self.reg.channels)
    rq = tuple((r['serial'], r['done'], r['g'].dead, r.get('killed', False)) for r in self.reqs)
    return repr((self.pool._ref_count, ch, rq, self.opens, self.closes, self.n_faults))


class RefCount(object):
  def __init__(self, params):
    from scales.sink import RefCountedSink
    self.p = params
    self.reg = stubs.Registry()
    self.under = self.reg.cls(self.reg, stubs.make_endpoint(0), {})
    self.sink = RefCountedSink(self.under)
    self.count = 0         # reference model
    self.nops = 0
    self.viol = []
    self.results = []      # Open() results since the last 0->1 transition
    self.want_open = 0
    self.want_close = 0

  def v(self, clause, msg):
    self.viol.append({'clause': clause, 'message': msg, 'sig': {}})

  def apply(self, op):
    self.nops += 1
    if op[0] == 'Open':
      if self.count == 0:
        self.want_open += 1
        self.results = []
      self.count += 1
      res = self.sink.Open()
      self.results.append(res)
      if any(r is not self.results[0] for r in self.results):
        self.v('C16.refcount-result', 'after %r: holders between first open and last close got different Open() results' % (op,))
    else:
      if self.count > 0:
        self.count -= 1
        if self.count == 0:
          self.want_close += 1
      self.sink.Close()
    vloop.run_ready()
    if self.under.open_calls != self.want_open:
      self.v('C16.refcount-open', 'after %r (history has %d holders): underlying Open called %d times, expected %d'
             % (op, self.count, self.under.open_calls, self.want_open))
    if self.under.close_calls != self.want_close:
      self.v('C16.refcount-close', 'after %r (history has %d holders): underlying Close called %d times, expected %d'
             % (op, self.count, self.under.close_calls, self.want_close))

  def enabled(self):
    ops = []
    for h in range(self.p['holders']):
      ops.append(['Open', h])
      ops.append(['Close', h])
    return ops

  def key(self):
    return repr((self.count, self.sink._ref_count, self.under.open_calls, self.under.close_calls, self.nops))


class RefCountYield(object):
  """The reference-counted sink over an underlying sink whose Close() is cooperative (it yields to the loop twice before the
  connection is really closed, as a graceful shutdown does).  Holders run in their own greenlets; an operation is issued either at a
  quiescent point or (mode 1, at most `max_preempt` per history) after only ONE ready callback of the previous activity has run, i.e.
  while an earlier Open/Close is still in progress."""
  def __init__(self, params):
    import gevent
    from scales.sink import RefCountedSink
    self.p = params
    self.reg = stubs.Registry()
    self.reg.reopen_ok = True
    self.under = self.reg.cls(self.reg, stubs.make_endpoint(0), {})
    self.events = []
    oo, oc = self.under.Open, self.under.Close

    def Open():
      self.events.append('open')
      return oo()

    def Close():
      self.events.append('close-begin')
      for _ in range(params.get('close_yields', 2)):
        gevent.sleep(0)
      r = oc()
      self.events.append('close-end')
      return r
    self.under.Open, self.under.Close = Open, Close
    self.sink = RefCountedSink(self.under)
    self.count = 0
    self.nops = 0
    self.pre = 0
    self.viol = []
    self.ops = []       # (kind, greenlet, set of earlier operations that had finished when it was issued)

  def v(self, clause, msg):
    self.viol.append({'clause': clause, 'message': msg, 'sig': {}})

  def apply(self, op):
    import gevent
    from scales.constants import ChannelState
    self.nops += 1
    # operations that were still running when this one was issued are concurrent with it: they may take effect in either order
    finished = frozenset(i for i, (k, g, _) in enumerate(self.ops) if g.dead)
    g = gevent.spawn(self.sink.Open if op[0] == 'Open' else self.sink.Close)
    self.ops.append((op[0], g, finished))
    if op[2]:
      self.pre += 1
      vloop.run_ready(budget=1)
      return
    vloop.run_ready()
    self.count = None
    counts = self._possible_counts()
    if self.sink._ref_count not in counts:
      self.v('C16.refcount-count', 'after %r: the sink counts %d holders; the Open/Close calls made so far allow %r'
             % (op, self.sink._ref_count, sorted(counts)))
      return
    self.count = self.sink._ref_count
    # quiescent: everything issued so far has finished
    ev = self.events
    depth = 0
    for i, e in enumerate(ev):
      if e == 'close-begin':
        depth += 1
      elif e == 'close-end':
        depth -= 1
      elif depth > 0:
        self.v('C16.refcount-overlap', 'after %r: the underlying sink was opened while its Close() was still in progress (underlying '
               'events %r)' % (op, ev))
        break
    is_open = self.under.state == ChannelState.Open
    if self.count > 0 and not is_open:
      self.v('C16.refcount-live', 'after %r: %d holders are alive but the underlying sink is not open (underlying events %r)'
             % (op, self.count, ev))
    if self.count == 0 and is_open:
      self.v('C16.refcount-close', 'after %r: no holder is left but the underlying sink is still open (underlying events %r)' % (op, ev))

  def _possible_counts(self):
    """Holder counts reachable by some order of the calls that respects 'finished before the other was issued'."""
    n = len(self.ops)
    out = set()
    seen = set()

    def rec(done, count):
      if (done, count) in seen:
        return
      seen.add((done, count))
      if len(done) == n:
        out.add(count)
        return
      for i in range(n):
        if i in done:
          continue
        kind, g, fin = self.ops[i]
        if not fin <= done:
          continue
        # i may come next only if no unfinished-before-it op is still missing, and nothing that was issued after i finished
        # ... precedes it: j must precede i whenever j had finished when i was issued (fin), checked above
        rec(done | frozenset([i]), count + 1 if kind == 'Open' else max(0, count - 1))
    rec(frozenset(), 0)
    return out

  def enabled(self):
    ops = []
    modes = [0] + ([1] if self.pre < self.p.get('max_preempt', 1) else [])
    for j in modes:
      ops.append(['Open', 0, j])
      ops.append(['Close', 0, j])
    return ops

  def key(self):
    return repr((self.sink._ref_count, tuple(self.events), self.pre, len(vloop.loop()._ready), self.nops,
                 tuple((k, g.dead) for (k, g, f) in self.ops)))


class Shared(object):
  KEYS = ['k1', 'k2', None]

  def __init__(self, params):
    from scales.sink import SharedSinkProvider
    self.p = params
    self.reg = stubs.Registry()
    self.prov = SharedSinkProvider(lambda props: props.get('sharekey'))
    self.prov.next_provider = stubs.StubProvider(self.reg)
    self.refs = []        # (key, sink or None when dropped)
    self.viol = []
    self.nops = 0

  def v(self, clause, msg):
    self.viol.append({'clause': clause, 'message': msg, 'sig': {}})

  def apply(self, op):
    from scales.constants import SinkProperties
    self.nops += 1
    if op[0] == 'Create':
      key = self.KEYS[op[1]]
      alive = [s for (k, s) in self.refs if k == key and s is not None and key is not None]
      # the client label differs between holders (two clients of one process sharing a connection by key); it is not part of the key
      sink = self.prov.CreateSink({SinkProperties.Endpoint: stubs.make_endpoint(0), 'sharekey': key,
                                   SinkProperties.Label: 'client-%d' % (len(self.refs) % 2)})
      if alive and sink is not alive[0]:
        self.v('C16.shared-key', 'after %r: key %r yielded a different sink although a holder of the first one is alive' % (op, key))
      if key is None:
        if any(sink is s for (k, s) in self.refs if s is not None):
          self.v('C16.shared-nokey', 'after %r: an un-keyed sink was shared' % (op,))
      else:
        other = [s for (k, s) in self.refs if k != key and s is not None]
        if any(sink is s for s in other):
          self.v('C16.shared-key', 'after %r: different keys yielded the same sink' % (op,))
      self.refs.append((key, sink))
      del sink, alive
    elif op[0] == 'Drop':
      k, s = self.refs[op[1]]
      self.refs[op[1]] = (k, None)
      del s
    elif op[0] == 'Fault':
      # the underlying connection of that sink dies (state Closed); the holders are still alive
      k, s = self.refs[op[1]]
      under = s.next_sink if hasattr(s, 'next_sink') and s.next_sink is not None else s
      from scales.constants import ChannelState
      under._state = ChannelState.Closed
      self.nfaults = getattr(self, 'nfaults', 0) + 1
      del s, under
    else:
      gc.collect()

  def enabled(self):
    ops = []
    if len(self.refs) < self.p['max_refs']:
      for i in range(len(self.KEYS)):
        ops.append(['Create', i])
    for i, (k, s) in enumerate(self.refs):
      if s is not None:
        ops.append(['Drop', i])
        if getattr(self, 'nfaults', 0) < self.p.get('max_faults', 1) and k is not None:
          ops.append(['Fault', i])
    ops.append(['GC'])
    return ops

  def key(self):
    ids = {}
    desc = []
    for (k, s) in self.refs:
      if s is None:
        desc.append((k, None))
      else:
        desc.append((k, ids.setdefault(id(s), len(ids))))
    return repr((tuple(desc), sorted(str(k) for k in self.prov._cache.keys()), getattr(self, 'nfaults', 0),
                 tuple(s.state if s is not None else None for (k, s) in self.refs)))


KINDS = {'singleton': Single, 'refcount': RefCount, 'shared': Shared, 'refcount-yield': RefCountYield}


def build(params, hist):
  world.reset()
  w = KINDS[params['which']](params)
  for op in hist:
    if w.viol:
      break
    w.apply(op)
  return w


def expand(params, hist):
  w = build(params, hist)
  out = {'key': w.key(), 'children': [], 'violations': list(w.viol), 'builds': 1}
  if w.viol:
    return out
  for op in w.enabled():
    w2 = build(params, hist + [op])
    out['children'].append({'op': op, 'key': w2.key(), 'violations': w2.viol[:1], 'terminal': bool(w2.viol)})
  return out


CONFIGS = {
  'quick': [
    ('singleton immediate opens', {'which': 'singleton', 'max_opens': 2, 'surplus': 0, 'max_reqs': 3, 'max_faults': 2}, 8),
    ('singleton pending opens', {'which': 'singleton', 'max_opens': 1, 'surplus': 0, 'max_reqs': 3, 'max_faults': 1, 'open_mode': 'pending'}, 8),
    ('singleton over a sink that reports Busy while it carries a request', {'which': 'singleton', 'max_opens': 1, 'surplus': 0, 'max_reqs': 3,
                                                                            'max_faults': 1, 'busy': True}, 7),
    ('singleton pending opens, a caller waiting for the connection is killed', {'which': 'singleton', 'max_opens': 1, 'surplus': 0, 'max_reqs': 3,
                                                                                'max_faults': 0, 'open_mode': 'pending', 'kill': True}, 8),
    ('refcount 3 holders', {'which': 'refcount', 'holders': 3}, 8),
    ('shared provider 3 keys', {'which': 'shared', 'max_refs': 4}, 8),
    ('refcount over a sink whose Close yields', {'which': 'refcount-yield', 'max_preempt': 2}, 7),
  ],
  'thorough': [
    ('singleton immediate opens', {'which': 'singleton', 'max_opens': 2, 'surplus': 1, 'max_reqs': 4, 'max_faults': 2}, 10),
    ('singleton pending opens', {'which': 'singleton', 'max_opens': 2, 'surplus': 0, 'max_reqs': 4, 'max_faults': 2, 'open_mode': 'pending'}, 10),
    ('singleton over a sink that reports Busy while it carries a request', {'which': 'singleton', 'max_opens': 2, 'surplus': 0, 'max_reqs': 4,
                                                                            'max_faults': 2, 'busy': True}, 9),
    ('refcount 3 holders', {'which': 'refcount', 'holders': 3}, 10),
    ('shared provider 3 keys', {'which': 'shared', 'max_refs': 5}, 10),
    ('refcount over a sink whose Close yields', {'which': 'refcount-yield', 'max_preempt': 3, 'close_yields': 3}, 9),
  ],
}


def main(tier, seed):
  rep = Report(PROP, tier, seed, 'model_checking')
  pool = bfs.make_pool()
  try:
    for name, params, depth in CONFIGS[tier]:
      res = bfs.run_bfs('vt.checks.c16', 'expand', params, depth, pool, seed=seed, stop_on_violation=False)
      rep.add_bfs(name, res, depth, params=params, replay_base={'params': params})
  finally:
    pool.close()
    pool.join()
  rep.assumptions += ['reference counting is by count, not by holder identity (the sink cannot tell holders apart)',
                      'garbage collection happens only at explicit gc operations plus CPython reference counting']
  return rep.finish(
    rule='BFS over histories of Open/Close/request/fault/open-outcome operations (singleton pool), Open/Close by three holders '
         '(reference-counted sink) and Create/Drop/gc (shared provider) on the real classes over stub sinks; every transition is an '
         'implementation run compared with a counter model', exhaustive=True)


def replay(path):
  import json
  world.boot()
  v = json.load(open(path))
  rp = v['replay']
  w = build(rp['params'], [])
  for op in rp['history']:
    w.apply(op)
    print(op, w.key())
    for x in w.viol:
      print('   !!', x['clause'], x['message'])
    if w.viol:
      break
  return 0
