"""C01 - every call completes exactly once, no later than its deadline.  (Engine S, vt/stackharness.py)

C01, C02 and C12 run the same kind of executions (full Thrift / ThriftMux clients from the public
builders over the simulated network); each check explores its own scenario list and reports its own clauses.
"""
from .. import explore, stackharness
from ..report import Report

PROP = 'C01'
PREFIXES = ('C01.', 'STACK.')
FAULTS = ['refuse', 'stall', 'drop', 'eof', 'reset']


def scenarios(tier):
  out = []
  for stack in ('thrift', 'mux'):
    out.append(('%s (a) 1 endpoint, 2 calls, may be issued before open completes' % stack,
                {'stack': stack, 'endpoints': 1, 'ops': [('call', 'a0'), ('call', 'a1')], 'open_timeout': 0, 'faults': FAULTS,
                 'timeout': 0.5025}))
    out.append(('%s (e) slow connect (102.5 ms), 2 calls issued while opening' % stack,
                {'stack': stack, 'endpoints': 1, 'ops': [('call', 'e0'), ('call', 'e1', 0.2525)], 'open_timeout': 0, 'faults': FAULTS,
                 'timeout': 0.5025, 'connect_delay': 0.1025}))
    out.append(('%s (b) 2 endpoints, 3 concurrent calls' % stack,
                {'stack': stack, 'endpoints': 2, 'ops': [('call', 'b0'), ('call', 'b1'), ('call', 'b2', 0.2525)], 'open_timeout': 0,
                 'faults': FAULTS, 'timeout': 0.5025}))
    out.append(('%s (d) 2 endpoints, 2 calls, member leaves and re-joins' % stack,
                {'stack': stack, 'endpoints': 2, 'ops': [('call', 'd0'), ('call', 'd1')], 'faults': ['drop', 'reset', 'refuse'],
                 'scripted_serverset': True, 'membership': [('leave', 0), ('join', 0)], 'timeout': 0.5025}))
  for stack in ('thrift', 'mux'):
    out.append(('%s (f) the only member leaves (and re-joins) with calls in flight' % stack,
                {'stack': stack, 'endpoints': 1, 'ops': [('call', 'f0'), ('call', 'f1', 0.2525)], 'faults': ['drop', 'reset'],
                 'scripted_serverset': True, 'membership': [('leave', 0), ('join', 0)], 'timeout': 0.5025}))
  out.append(('mux (g) 1 endpoint, 3 calls, a tag above 65535 next to tag 2',
              {'stack': 'mux', 'endpoints': 1, 'ops': [('call', 'g0', 0.2525), ('call', 'g1'), ('call', 'g2')],
               'faults': ['drop'], 'timeout': 0.5025, 'tag_jump': [2, 65538]}))
  for stack in ('thrift', 'mux'):
    # timeouts that end exactly on a 10 ms tick (250 ms and 500 ms from the virtual epoch are exact in binary floating point)
    out.append(('%s (h) 1 endpoint, 2 calls whose deadlines fall exactly on a timer tick' % stack,
                {'stack': stack, 'endpoints': 1, 'ops': [('call', 'h0', 0.25), ('call', 'h1', 0.5)], 'faults': ['drop', 'stall'],
                 'open_timeout': 0, 'timeout': 0.5}))
  # two minutes into the client's life: the aperture balancer's periodic jitter (first due at +120 s) swaps members while a call is in flight
  out.append(('mux (j) 2 endpoints, a call in flight when the aperture jitter comes due',
              {'stack': 'mux', 'endpoints': 2, 'ops': [('at', 119.9025), ('call', 'j0', 0.3025), ('call', 'j1', 0.5025)],
               'faults': ['drop', 'stall'], 'timeout': 0.5025, 'horizon': 125.0, 'max_steps': 900, '_bound': 2}))
  out.append(('thrift (c) 1 endpoint, pool max 1 / queue 1, 3 calls',
              {'stack': 'thrift', 'endpoints': 1, 'ops': [('call', 'c0'), ('call', 'c1', 0.2525), ('call', 'c2')],
               'pool': {'max_watermark': 1, 'max_queue_len': 1}, 'faults': FAULTS, 'timeout': 0.5025}))
  pre = []
  for name, params in out:
    if '(a)' in name or '(c)' in name or '(e)' in name:
      q = dict(params)
      q['max_preempt'] = 1
      q['_bound'] = 2 if tier == 'quick' else 3
      pre.append((name + ' [+1 preemption]', q))
  return out + pre


def run(prop, prefixes, scen, tier, seed, bound, rule, assumptions, level='model_checking'):
  rep = Report(prop, tier, seed, level)
  pool = explore.make_pool()
  try:
    for name, params in scen:
      b = params.pop('_bound', bound)
      agg = explore.explore('vt.stackharness', 'run_exec', params, b, seed=seed, pool=pool,
                            split_levels=1 if b <= 2 else 2)
      agg.violations = [v for v in agg.violations if v['clause'].startswith(prefixes)]
      rep.add_explore(name, agg, b, params=params)
  finally:
    pool.close()
    pool.join()
  rep.assumptions += assumptions
  return rep.finish(rule=rule, exhaustive=True)


RULE = ('stateless exploration of the real client stack: every execution with at most d deviations from the default schedule '
        '(prompt in-order network, next application call, earliest timer); deviations are: another enabled event first, a connect '
        'refused or never answered, a reply dropped with the peer silent for good, EOF/reset on a connection after any of its I/O '
        'steps, membership change, another random value; distinct = distinct observable outcome (per-call result and completion '
        'time + what the server received)')
ASSUME = ['gevent loop contract: ready callbacks FIFO, I/O and timers noticed when the ready queue is empty',
          'one virtual clock; deadlines off the 10 ms tick, plus scenario (h) with deadlines exactly on a tick (values exact in floating point)',
          'faults on a connection are offered only at quiescent points that follow I/O activity on that connection',
          'preemption parts: at most one timer expiry between two ready callbacks per execution (the timer callback runs before the pending callbacks, as libev does)']


def main(tier, seed):
  return run(PROP, PREFIXES, scenarios(tier), tier, seed, 3 if tier == 'quick' else 4, RULE, ASSUME)


def replay(path):
  import json
  from .. import world
  world.boot()
  v = json.load(open(path))
  rp = v['replay']
  r = stackharness.run_exec(rp['params'], rp['choices'], None)
  for i, t in enumerate(r['trace']):
    print('%3d %s' % (i, t))
  print('outcome:', r['outcome'])
  for x in r['violations']:
    print('VIOLATION-DETAIL', x['clause'], x['message'])
  for e in r['errors']:
    print('greenlet error:', e)
  return 1 if r['violations'] else 0
