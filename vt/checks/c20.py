"""C20 - generated proxies and URI parsing are faithful for every interface.

Engine E: the full product of interface shapes (method names with/without leading and trailing
underscores, single class / base+derived / two bases, varied signatures) x call forms x argument
tuples x dispatcher answers, on the real ClientProxyBuilder; and of tcp:// endpoint lists,
zk:// host/path/endpoint-name combinations and foreign schemes on the real ScalesUriParser.
"""
import itertools

from .. import vloop, world
from ..report import Report

PROP = 'C20'

NAMES = ['m', 'm_', 'm__', 'get2', 'a_b', '_m', '__m', '__m__', '_m_', 'flush_async', 'async_']
SIGS = ['()', '(a)', '(a, b=1)', '(*a)', '(**k)', '(a, *r, **k)']
ARGS = [((), {}), ((1,), {}), ((1, 'x'), {}), ((None,), {'b': 2}), ((), {'a': 1, 'b': [1]}), (('é', 2, 3), {'k': 'v'}),
        # keyword names that collide with names the proxy / dispatcher use themselves
        ((1,), {'timeout': 3}), ((), {'method': 'm', 'args': (1,), 'kwargs': {}}), ((), {'self_': 1, 'asynchronous': True})]


def is_public(name):
  return not name.startswith('_')


def make_method(name, sig):
  ns = {}
  src = 'def %s(self%s):\n  return ("REAL", %r)\n' % (name, (', ' + sig[1:-1]) if sig != '()' else '', name)
  exec(src, ns)
  return ns[name]


class StubDispatcher(object):
  def __init__(self):
    self.calls = []
    self.mode = 'pending'
    self.last = None

  def DispatchMethodCall(self, method, args, kwargs, timeout=None):
    from scales.asynchronous import AsyncResult
    self.calls.append((method, args, kwargs))
    ar = AsyncResult()
    if self.mode == 'value':
      ar.set(('RET', method))
    elif self.mode == 'failure':
      ar.set_exception(KeyError(method))
    self.last = ar
    return ar

  def Open(self):
    from scales.asynchronous import AsyncResult
    return AsyncResult.Complete()

  def Close(self):
    pass


def shapes(names, sigs):
  """(description, class factory) for every interface shape."""
  for sig in sigs:
    yield ('single sig=%s' % sig, lambda sig=sig: type('IfaceS', (object,), {n: make_method(n, sig) for n in names}))
  half = len(names) // 2

  def derived():
    base = type('IfaceB', (object,), {n: make_method(n, '(a)') for n in names[:half]})
    return type('IfaceD', (base,), {n: make_method(n, '(a, b=1)') for n in names[half:]})
  yield ('base+derived', derived)

  def two_bases():
    b1 = type('IfaceB1', (object,), {n: make_method(n, '(*a)') for n in names[::2]})
    b2 = type('IfaceB2', (object,), {n: make_method(n, '(**k)') for n in names[1::2]})
    return type('IfaceM', (b1, b2), {})
  yield ('two bases', two_bases)

  def override():
    base = type('IfaceOB', (object,), {n: make_method(n, '()') for n in names})
    return type('IfaceOD', (base,), {names[0]: make_method(names[0], '(a, *r, **k)')})
  yield ('derived overrides', override)

  def decorated():
    # methods produced by a decorator that does not copy the function name: every function object is called 'wrapper'
    def deco(f):
      def wrapper(self, *a, **k):
        return f(self, *a, **k)
      return wrapper
    return type('IfaceW', (object,), {n: deco(make_method(n, '(*a, **k)')) for n in names})
  yield ('decorated methods (function __name__ differs from the method name)', decorated)

  def aliased():
    # one function object published under several method names
    f = make_method('impl', '(*a, **k)')
    d = {n: f for n in names}
    d['impl'] = f
    return type('IfaceA', (object,), d)
  yield ('aliased methods (one function under several names)', aliased)


def check_proxies(rep, stats):
  import gevent
  from scales.core import ClientProxyBuilder
  for desc, factory in shapes(NAMES, SIGS):
    iface = factory()
    proxy_cls = ClientProxyBuilder.CreateServiceClient(iface)
    if ClientProxyBuilder.CreateServiceClient(iface) is not proxy_cls:
      rep.violation('C20.cache', 'proxy class not cached for %s' % desc, {})
    disp = StubDispatcher()
    proxy = proxy_cls(disp)
    for name in NAMES:
      pub = is_public(name)
      for form in ('blocking', 'async'):
        attr = name if form == 'blocking' else name + '_async'
        for (args, kwargs) in ARGS:
          for mode in ('pending', 'value', 'failure'):
            stats['evals'] += 1
            case = {'iface': desc, 'method': name, 'form': form, 'args': repr(args), 'kwargs': repr(kwargs), 'dispatcher': mode}
            stats['keys'].add((desc, name, form, mode, len(args), len(kwargs)))
            if len(stats['samples']) < 3 and name == 'm_' and mode == 'pending' and kwargs:
              stats['samples'].append(case)
            fn = getattr(proxy, attr, None)
            if not pub:
              # non-public names are not part of the statement; only the absence of an _async twin for
              # dunder names is sanity-checked nowhere - skip
              continue
            if fn is None:
              rep.violation('C20.missing-method', 'public method %r has no %s form on the proxy (%s)' % (name, form, desc),
                            {'method': name, 'form': form}, {'case': case})
              break
            disp.mode = mode
            n0 = len(disp.calls)
            box = {}

            def call():
              try:
                box['ret'] = fn(*args, **kwargs)
              except BaseException as e:  # noqa
                box['exc'] = e
            g = gevent.spawn(call)
            vloop.run_ready()
            if len(disp.calls) != n0 + 1:
              rep.violation('C20.not-dispatched',
                            '%s form of public method %r did not reach the dispatcher (%d dispatches); returned %r (%s)'
                            % (form, name, len(disp.calls) - n0, box.get('ret'), desc),
                            {'method': name, 'form': form}, {'case': case})
              break
            got = disp.calls[-1]
            if got[0] != name or tuple(got[1]) != tuple(args) or dict(got[2]) != dict(kwargs):
              rep.violation('C20.args-changed', 'dispatcher received %r for call %r' % (got, case),
                            {'method': name, 'form': form}, {'case': case})
              break
            ar = disp.last
            if form == 'async':
              if box.get('ret') is not ar:
                rep.violation('C20.async-result', '_async form returned %r, not the dispatcher result object; %r'
                              % (box.get('ret', box.get('exc')), case), {'method': name, 'form': form}, {'case': case})
                break
            else:
              if mode == 'pending':
                if box:
                  rep.violation('C20.blocking-early', 'blocking form returned before completion: %r %r' % (box, case),
                                {'method': name, 'form': form}, {'case': case})
                  break
                ar.set(('LATE', name))
                vloop.run_ready()
                want = ('ret', ('LATE', name))
              elif mode == 'value':
                want = ('ret', ('RET', name))
              else:
                want = ('exc', KeyError)
              if want[0] == 'ret':
                ok = box.get('ret') == want[1] and 'exc' not in box
              else:
                ok = isinstance(box.get('exc'), KeyError)
              if not ok:
                rep.violation('C20.blocking-result', 'blocking form produced %r, expected %r; %r' % (box, want, case),
                              {'method': name, 'form': form}, {'case': case})
                break
            if not g.dead:
              g.kill(block=False)
              vloop.run_ready()
          else:
            continue
          break
    proxy._dispatcher = disp


def check_same_name(rep, stats):
  """Thrift generates every interface as a class called Iface: distinct interface classes with the same name, in
  either order, must each get their own proxy (right methods, instance of their own interface)."""
  import gevent
  from scales.core import ClientProxyBuilder
  sets = [['alpha', 'beta'], ['beta', 'gamma_'], ['delta'], ['alpha']]
  for order in itertools.permutations(range(len(sets)), 3):
    ClientProxyBuilder._PROXY_TYPE_CACHE.clear()
    ifaces = [type('Iface', (object,), {n: make_method(n, '(a, b=1)') for n in sets[i]}) for i in order]
    for k, (iface, i) in enumerate(zip(ifaces, order)):
      stats['evals'] += 1
      stats['keys'].add(('same-name', order, k))
      disp = StubDispatcher()
      disp.mode = 'value'
      proxy = ClientProxyBuilder.CreateServiceClient(iface)(disp)
      case = {'interfaces_named_Iface_with_methods': [sets[j] for j in order], 'proxy_built_for': sets[i]}
      if not isinstance(proxy, iface):
        rep.violation('C20.wrong-proxy', 'proxy built for the interface with methods %r is not an instance of it; case %r' % (sets[i], case),
                      {'same_name': True}, {'case': case})
        return
      for name in sets[i]:
        for attr in (name, name + '_async'):
          fn = getattr(proxy, attr, None)
          n0 = len(disp.calls)
          box = {}
          if fn is not None:
            g = gevent.spawn(lambda: box.setdefault('r', fn(1, b=2)))
            vloop.run_ready()
          if fn is None or len(disp.calls) != n0 + 1 or disp.calls[-1] != (name, (1,), {'b': 2}):
            rep.violation('C20.wrong-proxy', 'method %r of the interface with methods %r was not dispatched by its proxy (dispatcher saw %r); case %r'
                          % (attr, sets[i], disp.calls[n0:], case), {'same_name': True}, {'case': case})
            return
  stats['samples'].append({'same_name_interfaces': sets})


def check_uris(rep, stats, max_eps):
  from scales.core import ScalesUriParser
  from scales.loadbalancer.serverset import StaticServerSetProvider, ZooKeeperServerSetProvider
  hosts = ['localhost', '10.0.0.1', 'Svc-B.Example.com']
  ports = [1, 8080, 65535]
  eps = [(h, p) for h in hosts for p in ports]
  parser = ScalesUriParser()
  for scheme in ('tcp', 'TCP'):
    for n in range(1, max_eps + 1):
      for sel in itertools.permutations(eps, n):
        if scheme == 'TCP' and n > 2:
          continue
        stats['evals'] += 1
        uri = '%s://%s' % (scheme, ','.join('%s:%d' % e for e in sel))
        stats['keys'].add(('tcp', n, sel[0]))
        try:
          prov = parser.Parse(uri)
          servers = prov.GetServers()
          got = [(s.service_endpoint.host, s.service_endpoint.port) for s in servers]
          ok = isinstance(prov, StaticServerSetProvider) and got == list(sel)
        except Exception as e:  # noqa
          got, ok = repr(e), False
        if not ok:
          rep.violation('C20.tcp-uri', '%s parsed to %r' % (uri, got), {'scheme': 'tcp'}, {'uri': uri})
          return
  # the same endpoint listed more than once stays listed more than once (in order)
  for sel in ([eps[0], eps[1], eps[0]], [eps[2], eps[2]], [eps[0], eps[0], eps[0], eps[1]]):
    stats['evals'] += 1
    uri = 'tcp://' + ','.join('%s:%d' % e for e in sel)
    try:
      got = [(s.service_endpoint.host, s.service_endpoint.port) for s in parser.Parse(uri).GetServers()]
    except Exception as e:  # noqa
      got = repr(e)
    if got != list(sel):
      rep.violation('C20.tcp-uri', '%s parsed to %r' % (uri, got), {'scheme': 'tcp', 'duplicates': True}, {'uri': uri})
      return
  stats['samples'].append({'uri': 'tcp://' + ','.join('%s:%d' % e for e in eps[:3])})
  zk_hosts = ['zk1:2181', 'zk1:2181,zk2:2181', '10.1.1.1:2181,10.1.1.2:2182,10.1.1.3:2183']
  paths = ['/a', '/svc/Prod/Thing', '/x-y_z/0']
  names = [None, 'http', 'Thrift-Mux']
  for scheme in ('zk', 'ZK', 'Zk'):
    for h in zk_hosts:
      for p in paths:
        for nm in names:
          stats['evals'] += 1
          uri = '%s://%s%s%s' % (scheme, h, p, ('#' + nm) if nm else '')
          stats['keys'].add(('zk', h, p, nm))
          try:
            prov = parser.Parse(uri)
            zc = prov._zk_client
            got_hosts = sorted((a, int(b)) for (a, b) in zc.hosts)
            want_hosts = sorted((x.split(':')[0], int(x.split(':')[1])) for x in h.split(','))
            ok = (isinstance(prov, ZooKeeperServerSetProvider) and prov._zk_path == p
                  and prov.endpoint_name == nm and got_hosts == want_hosts)
            got = (type(prov).__name__, got_hosts, prov._zk_path, prov.endpoint_name)
          except Exception as e:  # noqa
            got, ok = repr(e), False
          if not ok:
            rep.violation('C20.zk-uri', '%s parsed to %r' % (uri, got), {'scheme': 'zk'}, {'uri': uri})
            return
  stats['samples'].append({'uri': 'zk://zk1:2181,zk2:2181/svc/prod/thing#http'})
  for scheme in ('http', 'https', '', 'tcpx', 'tc', 'zkk', 'z', 'file', 'tcp+zk'):
    for rest in ('localhost:80', 'a:1,b:2', 'zk1:2181/a#x'):
      stats['evals'] += 1
      uri = ('%s://%s' % (scheme, rest)) if scheme else rest
      stats['keys'].add(('other', scheme, rest))
      try:
        prov = parser.Parse(uri)
        rep.violation('C20.scheme-accepted', 'URI %r with foreign scheme was accepted: %r' % (uri, prov),
                      {'scheme': scheme}, {'uri': uri})
        return
      except Exception:
        pass


def check_parser_instances(rep, stats):
  """Several parser objects in one process, one of them customised (an extra scheme registered on the instance, a subclass that
  overrides the tcp handler): every other parser keeps rejecting foreign schemes and parsing tcp:// as listed."""
  from scales.core import ScalesUriParser

  class Sub(ScalesUriParser):
    def _HandleTcp(self, uri):
      return 'SUB'
  for order in itertools.permutations(['default', 'custom', 'sub']):
    parsers = {}
    for what in order:
      if what == 'default':
        parsers['default'] = ScalesUriParser()
      elif what == 'custom':
        parsers['custom'] = ScalesUriParser()
        parsers['custom'].handlers['http'] = lambda uri: 'HTTP'
      else:
        parsers['sub'] = Sub()
    parsers['late'] = ScalesUriParser()
    for name in ('default', 'late'):
      stats['evals'] += 1
      stats['keys'].add(('parser-instances', order, name))
      p = parsers[name]
      case = {'created_in_order': list(order), 'parser': name}
      try:
        got = p.Parse('http://a:1')
        rep.violation('C20.scheme-accepted', 'an uncustomised parser accepted http:// (%r) after another parser object was customised; %r'
                      % (got, case), {'scheme': 'http', 'instances': True}, {'case': case})
        return
      except Exception:
        pass
      try:
        prov = p.Parse('tcp://a:1,b:2,c:3')
        got = [(s.service_endpoint.host, s.service_endpoint.port) for s in prov.GetServers()]
      except Exception as e:  # noqa
        got = repr(e)
      if got != [('a', 1), ('b', 2), ('c', 3)]:
        rep.violation('C20.tcp-uri', 'an uncustomised parser parsed tcp://a:1,b:2,c:3 to %r after another parser object was customised; %r'
                      % (got, case), {'scheme': 'tcp', 'instances': True}, {'case': case})
        return


def check_builder_uris(rep, stats, length):
  """The client builder's SetUri, called repeatedly on ONE builder (also again after it rejected a URI): every call with a foreign
  scheme is rejected, every accepted call makes the builder use exactly the endpoints of that URI."""
  from scales.core import Scales
  iface = type('IfaceU', (object,), {'m': make_method('m', '()')})
  uris = [('tcp://a:1,b:2', [('a', 1), ('b', 2)]), ('tcp://c:3', [('c', 3)]), ('http://a:1', None), ('a:1', None), ('zkk://z:1/p', None)]
  for seq in itertools.product(range(len(uris)), repeat=length):
    b = Scales.NewBuilder(iface)
    current = None
    for pos, ui in enumerate(seq):
      uri, eps = uris[ui]
      stats['evals'] += 1
      stats['keys'].add(('builder-uri', seq[:pos + 1]))
      try:
        b.SetUri(uri)
        raised = None
      except Exception as e:  # noqa
        raised = e
      case = {'uris': [uris[i][0] for i in seq[:pos + 1]]}
      if eps is None:
        if raised is None:
          rep.violation('C20.scheme-accepted', 'SetUri(%r) on a builder that had seen %r was accepted' % (uri, case['uris'][:-1]),
                        {'scheme': uri.split(':')[0], 'builder': True}, {'case': case})
          return
      else:
        current = eps
        got = None
        if raised is None:
          prov = b._server_set_provider
          got = [(s.service_endpoint.host, s.service_endpoint.port) for s in prov.GetServers()]
        if raised is not None or got != eps:
          rep.violation('C20.tcp-uri', 'SetUri(%r) on a builder that had seen %r: %r, endpoints %r' % (uri, case['uris'][:-1], raised, got),
                        {'scheme': 'tcp', 'builder': True}, {'case': case})
          return
      if current is not None and raised is not None:
        got = [(s.service_endpoint.host, s.service_endpoint.port) for s in b._server_set_provider.GetServers()]
        if got != current:
          rep.violation('C20.tcp-uri', 'after the rejected SetUri(%r) the builder uses endpoints %r, the last accepted URI listed %r'
                        % (uri, got, current), {'scheme': 'tcp', 'builder': True}, {'case': case})
          return


def main(tier, seed):
  world.boot()
  rep = Report(PROP, tier, seed, 'exploration')
  stats = {'evals': 0, 'keys': set(), 'samples': []}
  check_proxies(rep, stats)
  check_same_name(rep, stats)
  check_builder_uris(rep, stats, 3 if tier == 'quick' else 4)
  check_parser_instances(rep, stats)
  check_uris(rep, stats, 3 if tier == 'quick' else 4)
  rep.put('evaluations', stats['evals'])
  rep.put('distinct_nontrivial', len(stats['keys']))
  for s in stats['samples']:
    rep.sample(s)
  rep.part('proxies+uris', engine='E', method_names=NAMES, signatures=SIGS, call_arguments=len(ARGS))
  rep.assumptions += ['public method = name not starting with an underscore',
                      'interfaces whose own methods are called X and X_async at once, static/class methods and '
                      'properties are outside the alphabet']
  return rep.finish(
    rule='full product of interface shape x method name x call form x argument tuple x dispatcher answer on the real '
         'ClientProxyBuilder with a recording dispatcher; all ordered selections of up to N tcp endpoints from 9, all '
         'zk host/path/name combinations, foreign schemes; distinct = distinct (shape, name, form, answer, arity) / URI class',
    exhaustive=True)


def replay(path):
  import json
  print(json.dumps(json.load(open(path)), indent=1))
  return main('quick', 0)
