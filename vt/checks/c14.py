"""C14 - framed Thrift calls and replies agree with the Thrift library's own codec.  (Engine E + all stream splits)

MessageDispatcher.StaticDispatchMessage -> ThriftSerializerSink -> thrift SocketTransportSink
(ScalesSocket + VarzSocketWrapper over FakeSock).  The peer decodes every request with the generated
Processor over the pure-Python TBinaryProtocol and produces the scripted outcome; the reply byte
stream is delivered in every split with <= k cut points (and one byte at a time), so the real
readAll loops see every chunking.  Interfaces: the repository's test Hello service and vsvc (hand
written in the compiler's py:dynamic shape): echo, void ping, struct+declared exception, void with a
declared exception, two i32 arguments, oneway, and a derived interface spread over two modules.
"""
import itertools
import struct

from .. import explore, peers, simnet, stubs, vloop, world
from ..report import Report
from .c08 import hello

PROP = 'C14'

TEXTS = ['', 'a', 'é', '日本', 'x' * 300]


def vsvc():
  from ..gen_py.vsvc import VSvc, VBase, ttypes
  return VSvc, VBase, ttypes


class Handler(object):
  """Server-side handler; `outcome` scripts what the method does."""
  def __init__(self):
    self.calls = []
    self.outcome = 'value'
    self.value = None

  def _do(self, name, args):
    from thrift.Thrift import TApplicationException
    VSvc, VBase, T = vsvc()
    self.calls.append((name, args))
    if self.outcome == 'declared':
      raise T.SvcError('declared-é 100% %s %d', 7)
    if self.outcome == 'denied':
      raise T.AuthError('no-é %(x)s 5%')
    if self.outcome == 'appexc':
      raise TApplicationException(TApplicationException.INTERNAL_ERROR, 'app-failure 7% %s')
    if self.outcome == 'crash':
      raise RuntimeError('handler crashed')
    return self.value

  def hi(self, test_data):
    return self._do('hi', (test_data,))

  def echo(self, s):
    return self._do('echo', (s,))

  def ping(self, *why):
    return self._do('ping', tuple(why))

  def pass_msg(self, m):
    return self._do('pass_msg', (m,))

  def check(self, n):
    return self._do('check', (n,))

  def add(self, a, b):
    return self._do('add', (a, b))

  def top(self, s):
    return self._do('top', (s,))

  def fire(self, s):
    return self._do('fire', (s,))

  def fetch(self, key):
    return self._do('fetch', (key,))

  def touch(self, key):
    return self._do('touch', (key,))


class Peer(object):
  ordered = True

  def __init__(self, net, conn, processor_cls, handler):
    self.net = net
    self.conn = conn
    self.buf = bytearray()
    self.pc = processor_cls
    self.handler = handler
    self.requests = []     # (raw payload, header)
    self.replies = []      # framed reply bytes not yet delivered
    self.errors = []

  def feed(self, data):
    self.buf += data
    while len(self.buf) >= 4:
      (n,) = struct.unpack('>i', bytes(self.buf[:4]))
      if n < 0 or len(self.buf) < 4 + n:
        break
      payload = bytes(self.buf[4:4 + n])
      del self.buf[:4 + n]
      try:
        reply, hdr = peers.thrift_process(self.pc, self.handler, payload)
      except Exception as e:  # noqa
        self.errors.append(repr(e))
        continue
      self.requests.append((payload, hdr))
      if reply is not None:
        self.replies.append(struct.pack('>i', len(reply)) + reply)

  def on_client_close(self):
    pass


class Chain(object):
  def __init__(self, iface, processor_cls):
    from scales.constants import SinkProperties
    from scales.loadbalancer.zookeeper import Endpoint
    from scales.thrift.sink import ThriftSerializerSink, SocketTransportSink
    self.net = simnet.new_net()
    self.handler = Handler()
    self.net.add_endpoint('h0', 1000, lambda net, c: Peer(net, c, processor_cls, self.handler))
    a = ThriftSerializerSink.Builder()
    b = SocketTransportSink.Builder()
    a.next_provider = b
    self.iface = iface
    self.top = a.CreateSink({SinkProperties.Endpoint: Endpoint('h0', 1000), SinkProperties.Label: 'svc',
                             SinkProperties.ServiceInterface: iface})
    self.transport = self.top.next_sink
    import gevent
    gevent.spawn(lambda: self.transport.Open().wait())
    self.pump()
    self.conn = self.net.conns[-1]
    self.peer = self.conn.peer

  def pump(self):
    for _ in range(20):
      vloop.run_ready()
      evs = self.net.enabled_events()
      if not evs:
        break
      self.net.fire(evs[0], 'ok')
    vloop.run_ready()

  def call(self, method, args, cuts, kwargs=None):
    """Issue one call; deliver the reply split at `cuts` (sorted byte offsets), one chunk at a time."""
    from scales.dispatch import MessageDispatcher
    from scales.message import MethodCallMessage
    n0 = len(self.peer.requests)
    r0 = len(self.conn.sent)
    ar = MessageDispatcher.StaticDispatchMessage(self.top, None, 0, None, MethodCallMessage(self.iface, method, args, dict(kwargs or {})))
    vloop.run_ready()
    sent = bytes(self.conn.sent[r0:])
    reqs = self.peer.requests[n0:]
    reply = self.peer.replies.pop(0) if self.peer.replies else None
    if reply is not None:
      if cuts == 'bytewise':
        chunks = [reply[i:i + 1] for i in range(len(reply))]
      else:
        pts = [0] + [c for c in cuts if 0 < c < len(reply)] + [len(reply)]
        chunks = [reply[a:b] for a, b in zip(pts, pts[1:]) if b > a]
      for ch in chunks:
        self.conn.rx += ch
        self.conn.wake()
        vloop.run_ready()
    vloop.run_ready()
    return ar, sent, reqs, reply


def cases():
  """(interface key, method, args, server outcome, server value)."""
  VSvc, VBase, T = vsvc()
  out = []
  for s in TEXTS:
    out.append(('hello', 'hi', (s,), 'value', 'ret:' + s))
  out.append(('hello', 'hi', ('q',), 'appexc', None))
  out.append(('hello', 'hi', ('q',), 'crash', None))
  out.append(('hello', 'hi', ('q',), 'value', None))            # result without success: "missing result"
  for s in TEXTS:
    out.append(('vsvc', 'echo', (s,), 'value', s[::-1]))
  out.append(('vsvc', 'echo', ('q',), 'value', ''))               # empty string is a value, not "missing"
  out.append(('vsvc', 'ping', (), 'value', None))                  # void
  out.append(('vsvc', 'ping', (), 'appexc', None))
  for m in (T.Msg('é', 3), T.Msg('', 0), T.Msg(None, None), T.Msg('x' * 300, -5)):
    out.append(('vsvc', 'pass_msg', (m,), 'value', T.Resp('resp-日', ['a', '', 'é'])))
  out.append(('vsvc', 'pass_msg', (T.Msg('a', 1),), 'value', T.Resp(None, None)))
  out.append(('vsvc', 'pass_msg', (T.Msg('a', 1),), 'declared', None))
  out.append(('vsvc', 'pass_msg', (T.Msg('a', 1),), 'appexc', None))
  out.append(('vsvc', 'pass_msg', (T.Msg('a', 1),), 'value', None))   # missing result
  out.append(('vsvc', 'check', (5,), 'value', None))               # void with a declared exception: returns None
  out.append(('vsvc', 'check', (5,), 'declared', None))
  for a, b in ((0, 0), (1, -1), (2147483647, -2147483648)):
    out.append(('vsvc', 'add', (a, b), 'value', (a + b) % 7))
  out.append(('vsvc', 'add', (1, 2), 'value', 0))                  # zero is a value
  out.append(('vsvc', 'fetch', ('k',), 'value', T.Resp('f', ['x'])))
  out.append(('vsvc', 'fetch', ('é',), 'declared', None))
  out.append(('vsvc', 'fetch', ('k',), 'denied', None))            # second declared exception (field 2, another name)
  out.append(('vsvc', 'fetch', ('k',), 'value', None))             # missing result
  out.append(('vsvc', 'touch', ('k',), 'value', None))             # void
  out.append(('vsvc', 'touch', ('k',), 'denied', None))
  out.append(('vsvc', 'fire', ('go',), 'value', None))             # oneway: request bytes only
  return out


def expected(case):
  iface, method, args, outcome, value = case
  if method == 'fire':
    return ('oneway',)
  if outcome == 'declared':
    return ('scales-error', 'SvcError')
  if outcome == 'denied':
    return ('scales-error', 'AuthError')
  if outcome in ('appexc', 'crash'):
    return ('scales-error', 'TApplicationException')
  if method in ('ping', 'check', 'touch'):
    return ('value', None)
  if value is None:
    return ('scales-error', 'TApplicationException')        # missing result -> the library raises MISSING_RESULT
  return ('value', value)


def observe(ar):
  if not ar.ready():
    return ('pending',)
  if ar.successful() and ar.exception is None:
    return ('value', ar.value)
  e = ar.exception
  inner = getattr(e, 'inner_exception', None)
  if inner is not None:
    return ('scales-error', type(inner).__name__)
  return ('error', type(e).__name__, str(e)[:80])


def run_cases(case_idx, max_cuts, shard=(0, 1)):
  """All splits with <= max_cuts cut points (+ bytewise) for the given cases."""
  VSvc, VBase, T = vsvc()
  H = hello()
  allc = cases()
  viol = []
  n = 0
  keys = set()
  sample = None
  world.reset()
  chains = {}
  for ci in case_idx:
    case = allc[ci]
    ikey, method, args, outcome, value = case
    want = expected(case)

    def chain():
      if ikey not in chains or chains[ikey].transport.state != 2:
        chains[ikey] = Chain(H.Iface, H.Processor) if ikey == 'hello' else Chain(VSvc.Iface, VSvc.Processor)
      return chains[ikey]
    ch = chain()
    ch.handler.outcome, ch.handler.value = outcome, value
    # first a probe with no split to learn the reply length
    ar, sent, reqs, reply = ch.call(method, args, [])
    n += 1
    desc = {'interface': ikey, 'method': method, 'args': repr(args)[:60], 'server': outcome, 'value': repr(value)[:40]}
    bad = None
    (size,) = struct.unpack('>i', sent[:4]) if len(sent) >= 4 else (None,)
    if size != len(sent) - 4:
      bad = ('C14.request-frame', 'length prefix %r, %d bytes follow' % (size, len(sent) - 4))
    elif len(reqs) != 1:
      bad = ('C14.request-frame', 'the Thrift processor decoded %d requests (%r)' % (len(reqs), ch.peer.errors[-1:]))
    elif reqs[0][1][0] != method or ch.handler.calls[-1] != (method, args):
      bad = ('C14.request-args', 'server decoded %r%r, caller passed %s%r' % (ch.handler.calls[-1][0], ch.handler.calls[-1][1], method, args))
    if bad is None and want[0] != 'oneway':
      got = observe(ar)
      if got != want:
        bad = ('C14.outcome', 'caller observed %r, expected %r' % (got, want))
    if bad:
      viol.append({'clause': bad[0], 'message': bad[1] + '; case %r' % (desc,), 'sig': {'method': method, 'server': outcome},
                   'replay': {'case': desc}})
      chains.pop(ikey, None)
      world.reset()
      chains.clear()
      continue
    if want[0] == 'oneway' or reply is None:
      chains.pop(ikey, None)     # the serial transport is now waiting for a reply that never comes: start afresh
      world.reset()
      chains.clear()
      continue
    L = len(reply)
    splits = ['bytewise']
    for k in range(1, max_cuts + 1):
      splits += list(itertools.combinations(range(1, L), k))
    for si, cuts in enumerate(splits):
      if si % shard[1] != shard[0]:
        continue
      ch = chain()
      ch.handler.outcome, ch.handler.value = outcome, value
      ar, sent2, reqs2, reply2 = ch.call(method, args, cuts)
      n += 1
      got = observe(ar)
      keys.add((ci, len(cuts) if cuts != 'bytewise' else -1, got[0]))
      if sample is None and cuts != 'bytewise' and len(cuts) == 2:
        sample = dict(desc, reply_len=L, cuts=list(cuts))
      if got != want or sent2 != sent:
        viol.append({'clause': 'C14.split', 'message': 'reply of %d bytes split at %r: caller observed %r, expected %r; case %r'
                     % (L, cuts, got, want, desc), 'sig': {'method': method}, 'replay': {'case': desc, 'cuts': cuts if cuts == 'bytewise' else list(cuts)}})
        world.reset()
        chains.clear()
        break
  return {'n': n, 'keys': len(keys), 'viol': viol, 'sample': sample}


def run_sequences(first_idx):
  """History dependence: on ONE client (one serializer, one connection) every ordered pair and triple of cases that
  starts with a case in first_idx; each call must produce what the same case produces on a fresh client."""
  VSvc, VBase, T = vsvc()
  H = hello()
  allc = cases()
  usable = [i for i, c in enumerate(allc) if c[1] != 'fire']
  viol = []
  n = 0
  keys = set()
  seqs = []
  for a in first_idx:
    if a not in usable:
      continue
    ikey = allc[a][0]
    same = [i for i in usable if allc[i][0] == ikey]
    seqs = [(a, b) for b in same] + [(a, b, c) for b in same for c in same if allc[b][3] != 'value' or allc[c][3] != 'value']
    for seq in seqs:
      world.reset()
      ch = Chain(H.Iface, H.Processor) if ikey == 'hello' else Chain(VSvc.Iface, VSvc.Processor)
      ok = True
      for pos, ci in enumerate(seq):
        case = allc[ci]
        ch.handler.outcome, ch.handler.value = case[3], case[4]
        ar, sent, reqs, reply = ch.call(case[1], case[2], [])
        n += 1
        got, want = observe(ar), expected(case)
        keys.add((seq[:pos + 1], got[0]))
        if got != want:
          viol.append({'clause': 'C14.history', 'message': 'on one client, after calls %r the call %s%r (server: %s) produced %r, expected %r'
                       % ([(allc[i][1], allc[i][3]) for i in seq[:pos]], case[1], case[2], case[3], got, want),
                       'sig': {'method': case[1]}, 'replay': {'sequence': [[allc[i][1], allc[i][3]] for i in seq]}})
          ok = False
          break
      if not ok and len(viol) >= 3:
        return {'n': n, 'keys': len(keys), 'viol': viol, 'sample': None}
  return {'n': n, 'keys': len(keys), 'viol': viol, 'sample': {'sequence': [[allc[i][1], allc[i][3]] for i in seqs[-1]]} if seqs else None}


def run_overlapping():
  """Two calls in flight at once through ONE serializer sink (as under a pool or balancer: the serializer sits above the connections):
  call A is written on connection 1, call B on connection 2 before A's reply arrives, then A's reply, then B's.  Every ordered pair of
  value-returning / void / failing cases of the vsvc interface; each call must yield what it yields alone on a fresh client."""
  from scales.constants import SinkProperties
  from scales.dispatch import MessageDispatcher
  from scales.loadbalancer.zookeeper import Endpoint
  from scales.message import MethodCallMessage
  from scales.thrift.sink import SocketTransportSink
  import gevent
  VSvc, VBase, T = vsvc()
  allc = [c for c in cases() if c[0] == 'vsvc' and c[1] != 'fire']
  seen, sel = set(), []
  for c in allc:                      # one case per (method, server outcome, value present)
    k = (c[1], c[3], c[4] is None)
    if k not in seen:
      seen.add(k)
      sel.append(c)
  viol = []
  n = 0
  for ca in sel:
    for cb in sel:
      world.reset()
      ch = Chain(VSvc.Iface, VSvc.Processor)
      t1 = ch.transport
      t2 = SocketTransportSink.Builder().CreateSink({SinkProperties.Endpoint: Endpoint('h0', 1000), SinkProperties.Label: 'svc',
                                                     SinkProperties.ServiceInterface: VSvc.Iface})
      gevent.spawn(lambda: t2.Open().wait())
      ch.pump()
      conn1, conn2 = ch.conn, ch.net.conns[-1]
      ars = []
      for case, tr in ((ca, t1), (cb, t2)):
        ch.top.next_sink = tr
        ch.handler.outcome, ch.handler.value = case[3], case[4]
        ars.append(MessageDispatcher.StaticDispatchMessage(ch.top, None, 0, None, MethodCallMessage(VSvc.Iface, case[1], case[2], {})))
        vloop.run_ready()
      for conn in (conn1, conn2):
        if conn.peer.replies:
          conn.rx += conn.peer.replies.pop(0)
          conn.wake()
          vloop.run_ready()
      vloop.run_ready()
      n += 1
      for which, case, ar in (('first', ca, ars[0]), ('second', cb, ars[1])):
        got, want = observe(ar), expected(case)
        if got != want:
          viol.append({'clause': 'C14.overlapping', 'message': 'two calls in flight through one serializer (%s%r then %s%r, replies in the same order): '
                       'the %s produced %r, expected %r' % (ca[1], ca[2], cb[1], cb[2], which, got, want), 'sig': {'method': case[1]},
                       'replay': {'overlapping': [[ca[1], ca[3]], [cb[1], cb[3]]]}})
          break
      if len(viol) >= 3:
        return {'n': n, 'keys': n, 'viol': viol, 'sample': None}
  return {'n': n, 'keys': n, 'viol': viol, 'sample': {'overlapping_pairs': n}}


def run_keyword_calls():
  """Arguments passed by keyword (all of them, or the trailing ones), including empty / zero / false values: the server must
  decode exactly the values the caller passed."""
  VSvc, VBase, T = vsvc()
  H = hello()
  viol = []
  n = 0
  forms = []
  for v in ['', 'a', 'é', '0']:
    forms.append(('hello', 'hi', (), {'test_data': v}, (v,)))
    forms.append(('vsvc', 'echo', (), {'s': v}, (v,)))
    forms.append(('vsvc', 'fetch', (), {'key': v}, (v,)))
  for a in (0, 1, -1):
    for b in (0, 2):
      forms.append(('vsvc', 'add', (), {'a': a, 'b': b}, (a, b)))
      forms.append(('vsvc', 'add', (a,), {'b': b}, (a, b)))
      forms.append(('vsvc', 'add', (), {'b': b, 'a': a}, (a, b)))
  for nn in (0, 7):
    forms.append(('vsvc', 'check', (), {'n': nn}, (nn,)))
  forms.append(('vsvc', 'pass_msg', (), {'m': T.Msg('', 0)}, (T.Msg('', 0),)))
  for ikey, method, args, kwargs, want in forms:
    n += 1
    world.reset()
    ch = Chain(H.Iface, H.Processor) if ikey == 'hello' else Chain(VSvc.Iface, VSvc.Processor)
    ch.handler.outcome, ch.handler.value = 'value', None
    ar, sent, reqs, reply = ch.call(method, args, [], kwargs)
    bad = None
    if len(reqs) != 1:
      bad = 'the Thrift processor decoded %d requests (%r; caller: %r)' % (len(reqs), ch.peer.errors[-1:], observe(ar))
    elif ch.handler.calls[-1] != (method, want):
      bad = 'server decoded %s%r' % ch.handler.calls[-1]
    if bad:
      viol.append({'clause': 'C14.request-args', 'message': 'call %s.%s(*%r, **%r): %s, caller passed %r' % (ikey, method, args, kwargs, bad, want),
                   'sig': {'method': method, 'keyword': True}})
      if len(viol) >= 3:
        break
  return {'n': n, 'keys': n, 'viol': viol, 'sample': {'keyword_call': 'add(a=0, b=0)'}}


def run_timeout_then_call():
  """A pooled serial connection (watermark pool, max 1): call A's reply never comes and A times out in the transport; call B was
  waiting for the connection.  B is an ordinary call to a healthy server: its bytes must reach the server's processor and it must
  yield its return value, for every method/argument case."""
  from scales.constants import SinkProperties
  from scales.dispatch import MessageDispatcher
  from scales.loadbalancer.zookeeper import Endpoint
  from scales.message import MethodCallMessage
  from scales.pool.watermark import WatermarkPoolSink
  from scales.thrift.sink import ThriftSerializerSink, SocketTransportSink
  import gevent
  VSvc, VBase, T = vsvc()
  viol = []
  n = 0
  lp = vloop.loop()
  allc = [c for c in cases() if c[0] == 'vsvc' and c[1] != 'fire' and c[3] == 'value' and c[4] is not None][:6]
  for case in allc:
    ikey, method, args, outcome, value = case
    n += 1
    world.reset()
    net = simnet.new_net()
    handler = Handler()
    net.add_endpoint('h0', 1000, lambda net, c: Peer(net, c, VSvc.Processor, handler))
    a = ThriftSerializerSink.Builder()
    pl = WatermarkPoolSink.Builder(min_watermark=1, max_watermark=1, max_queue_len=4)
    b = SocketTransportSink.Builder()
    a.next_provider = pl
    pl.next_provider = b
    top = a.CreateSink({SinkProperties.Endpoint: Endpoint('h0', 1000), SinkProperties.Label: 'svc', SinkProperties.ServiceInterface: VSvc.Iface})
    gevent.spawn(lambda: top.next_sink.Open().wait())

    def pump(until=None):
      for _ in range(400):
        vloop.run_ready()
        evs = net.enabled_events()
        if evs:
          net.fire(evs[0], 'ok')
          continue
        t = lp.next_timer()
        if until is None or t is None or t.at > until:
          break
        lp.fire(t)
      vloop.run_ready()
    pump()
    handler.outcome, handler.value = 'value', 'first'
    arA = MessageDispatcher.StaticDispatchMessage(top, None, lp.now(), lp.now() + 0.1025, MethodCallMessage(VSvc.Iface, 'echo', ('A',), {}))
    pump()
    handler.outcome, handler.value = 'value', value
    arB = MessageDispatcher.StaticDispatchMessage(top, None, lp.now(), None, MethodCallMessage(VSvc.Iface, method, args, {}))
    pump()
    # A's reply is never delivered; time passes, A times out, the transport recovers, B gets the connection
    for c in net.conns:
      if c.peer is not None:
        c.peer.replies[:] = []
    pump(until=lp.now() + 1.0)
    # deliver whatever the server has produced for B
    for _ in range(3):
      for c in net.conns:
        if c.peer is not None and c.peer.replies and not c.client_closed:
          c.rx += c.peer.replies.pop(0)
          c.wake()
      pump(until=lp.now() + 0.2)
    gotA, gotB = observe(arA), observe(arB)
    bad = None
    if gotA[0] != 'error' and not (gotA[0] == 'scales-error' and gotA[1] == 'TimeoutError') and 'Timeout' not in repr(gotA):
      bad = 'call A (reply withheld, 102.5 ms deadline) observed %r' % (gotA,)
    elif handler.calls[-1] != (method, args):
      bad = 'the server never decoded call B (last decoded: %r); B observed %r' % (handler.calls[-1], gotB)
    elif gotB != ('value', value):
      bad = 'call B observed %r, expected %r' % (gotB, ('value', value))
    if bad:
      viol.append({'clause': 'C14.outcome', 'message': 'pooled connection, call A timed out, then %s%r: %s' % (method, args, bad),
                   'sig': {'method': method, 'after_timeout': True}})
      break
  return {'n': n, 'keys': n, 'viol': viol, 'sample': {'timeout_then_call': [c[1] for c in allc]}}


def wsvc():
  from ..gen_py.wsvc import WSvc, WBase
  return WSvc, WBase


def two_service_cases():
  """Two unrelated service families whose methods have the same names and different signatures (both use service
  inheritance).  (family, method, args, oneway, server value)"""
  VSvc, VBase, T = vsvc()
  v = [('v', 'echo', ('é',), False, 'r-é'), ('v', 'ping', (), False, None), ('v', 'add', (1, 2), False, 3),
       ('v', 'fetch', ('k',), False, T.Resp('f', ['x'])), ('v', 'touch', ('k',), False, None), ('v', 'fire', ('go',), True, None)]
  w = [('w', 'echo', (2 ** 40 + 5,), False, 2 ** 41), ('w', 'ping', ('why-é',), False, None), ('w', 'add', (2 ** 33, 5), False, 2 ** 33 + 5),
       ('w', 'fetch', (7,), False, 'str-é'), ('w', 'touch', ('k2',), True, None), ('w', 'fire', ('s2',), False, None)]
  return v, w


def run_two_services():
  """Two clients for two different interfaces alive in one process: every ordered pair (call on one, then call on the
  other); each call must be encoded with its own interface's argument struct and message type and decode its own reply."""
  from thrift.Thrift import TMessageType
  VSvc, VBase, T = vsvc()
  WSvc, WBase = wsvc()
  vc, wc = two_service_cases()
  viol = []
  n = 0
  keys = set()
  for first in vc + wc:
    for second in (wc if first[0] == 'v' else vc):
      world.reset()
      chains = {'v': Chain(VSvc.Iface, VSvc.Processor), 'w': Chain(WSvc.Iface, WSvc.Processor)}
      for pos, case in enumerate((first, second)):
        fam, method, args, oneway, value = case
        ch = chains[fam]
        ch.handler.outcome, ch.handler.value = 'value', value
        ar, sent, reqs, reply = ch.call(method, args, [])
        n += 1
        bad = None
        if len(reqs) != 1:
          bad = 'the %s service\'s processor decoded %d requests (%r)' % (fam, len(reqs), ch.peer.errors[-1:])
        elif reqs[0][1][0] != method or ch.handler.calls[-1] != (method, args):
          bad = 'server decoded %s%r, caller passed %s%r' % (ch.handler.calls[-1][0], ch.handler.calls[-1][1], method, args)
        elif reqs[0][1][1] != (TMessageType.ONEWAY if oneway else TMessageType.CALL):
          bad = 'message type %d for a %s method' % (reqs[0][1][1], 'oneway' if oneway else 'two-way')
        elif not oneway:
          got = observe(ar)
          if got != ('value', value):
            bad = 'caller observed %r, expected %r' % (got, ('value', value))
        keys.add((first[:2], second[:2], pos, bad is None))
        if bad:
          viol.append({'clause': 'C14.two-services', 'message': 'clients for two interfaces in one process, %s: %s.%s%r: %s'
                       % ('first call' if pos == 0 else 'after %s.%s on the other client' % (first[0], first[1]), fam, method, args, bad),
                       'sig': {'method': method}, 'replay': {'first': list(first[:2]), 'second': list(second[:2])}})
          break
      if len(viol) >= 3:
        return {'n': n, 'keys': len(keys), 'viol': viol, 'sample': None}
  return {'n': n, 'keys': len(keys), 'viol': viol, 'sample': {'two_services': 'v.echo then w.echo'}}


def run_deep_inheritance():
  """An interface three levels deep (WLeaf extends WSvc extends WBase, one generated module per level): every method of every
  level called through a client for the leaf interface, in every order of two calls."""
  from thrift.Thrift import TMessageType
  from ..gen_py.wsvc import WLeaf
  _, w = two_service_cases()
  cases = [c[1:] for c in w] + [('top', ('t-é',), False, 'T-é')]
  viol = []
  n = 0
  keys = set()
  for first in cases:
    for second in cases:
      world.reset()
      ch = Chain(WLeaf.Iface, WLeaf.Processor)
      # (after a oneway call the serial transport waits for a reply that never comes - see the assumptions -, so a oneway call
      # is only ever the last call on its client)
      for pos, (method, args, oneway, value) in enumerate((first, second) if not first[2] else (first,)):
        ch.handler.outcome, ch.handler.value = 'value', value
        bad = None
        try:
          ar, sent, reqs, reply = ch.call(method, args, [])
        except Exception as e:  # noqa
          bad = 'the call raised %r before anything was sent' % (e,)
          reqs = None
        n += 1
        if bad:
          pass
        elif len(reqs) != 1:
          bad = 'the processor decoded %d requests (%r)' % (len(reqs), ch.peer.errors[-1:])
        elif reqs[0][1][0] != method or ch.handler.calls[-1] != (method, args):
          bad = 'server decoded %s%r, caller passed %s%r' % (ch.handler.calls[-1][0], ch.handler.calls[-1][1], method, args)
        elif reqs[0][1][1] != (TMessageType.ONEWAY if oneway else TMessageType.CALL):
          bad = 'message type %d for a %s method' % (reqs[0][1][1], 'oneway' if oneway else 'two-way')
        elif not oneway:
          got = observe(ar)
          if got != ('value', value):
            bad = 'caller observed %r, expected %r' % (got, ('value', value))
        keys.add((first[0], second[0], pos, bad is None))
        if bad:
          viol.append({'clause': 'C14.inherited-method', 'message': 'interface WLeaf extends WSvc extends WBase, %s: %s%r: %s'
                       % ('first call' if pos == 0 else 'after %s' % (first[0],), method, args, bad), 'sig': {'method': method}})
          break
      if len(viol) >= 3:
        return {'n': n, 'keys': len(keys), 'viol': viol, 'sample': None}
  return {'n': n, 'keys': len(keys), 'viol': viol, 'sample': {'deep_inheritance': [c[0] for c in cases]}}


def run_readall(max_len, max_cuts):
  """ScalesSocket.readAll and VarzSocketWrapper.readAll directly: every split of a byte string."""
  import gevent
  from scales.scales_socket import ScalesSocket
  from scales.varz import VarzSocketWrapper
  viol = []
  n = 0
  world.reset()
  net = simnet.new_net()
  net.add_endpoint('h0', 1000, lambda net, c: None)
  data = bytes(range(1, max_len + 1))
  for wrap in (False, True):
    s = ScalesSocket('h0', 1000)
    sock = VarzSocketWrapper(s, 'svc') if wrap else s
    g = gevent.spawn(sock.open)
    vloop.run_ready()
    net.fire(net.enabled_events()[0], 'ok')
    vloop.run_ready()
    conn = net.conns[-1]
    for L in range(1, max_len + 1):
      for k in range(0, max_cuts + 1):
        for cuts in itertools.combinations(range(1, L), k):
          n += 1
          box = {}

          def rd():
            try:
              box['v'] = bytes(sock.readAll(L))
            except Exception as e:  # noqa
              box['e'] = e
          gevent.spawn(rd)
          vloop.run_ready()
          pts = [0] + list(cuts) + [L]
          for a, b in zip(pts, pts[1:]):
            conn.rx += data[a:b]
            conn.wake()
            vloop.run_ready()
          if box.get('v') != data[:L]:
            viol.append({'clause': 'C14.readall', 'message': '%s.readAll(%d) with chunks at %r returned %r'
                         % (type(sock).__name__, L, cuts, box), 'sig': {}})
            return {'n': n, 'keys': n, 'viol': viol, 'sample': None}
    # write(): every pattern of short send() results must still put exactly the bytes on the wire
    for L in range(1, max_len + 1):
      for k in range(0, max_cuts + 1):
        for cuts in itertools.combinations(range(1, L), k):
          n += 1
          pts = [0] + list(cuts) + [L]
          net.send_script = [b - a for a, b in zip(pts, pts[1:])]
          before = len(conn.sent)
          box = {}

          def wr():
            try:
              sock.write(data[:L])
              box['ok'] = True
            except Exception as e:  # noqa
              box['e'] = e
          gevent.spawn(wr)
          vloop.run_ready()
          got = bytes(conn.sent[before:])
          net.send_script = None
          if got != data[:L] or 'ok' not in box:
            viol.append({'clause': 'C14.write', 'message': '%s.write of %d bytes with send() accepting %r bytes at a time put %r on the wire (%r)'
                         % (type(sock).__name__, L, [b - a for a, b in zip(pts, pts[1:])], got, box), 'sig': {}})
            return {'n': n, 'keys': n, 'viol': viol, 'sample': None}
    # EOF in the middle must raise, not return short
    box = {}

    def rd2():
      try:
        box['v'] = bytes(sock.readAll(4))
      except EOFError as e:
        box['eof'] = True
      except Exception as e:  # noqa
        box['e'] = e
    gevent.spawn(rd2)
    vloop.run_ready()
    conn.rx += b'ab'
    conn.wake()
    vloop.run_ready()
    conn.eof = True
    conn.wake()
    vloop.run_ready()
    n += 1
    if not box.get('eof'):
      viol.append({'clause': 'C14.readall', 'message': '%s.readAll(4) at end-of-stream after 2 bytes: %r' % (type(sock).__name__, box), 'sig': {}})
  return {'n': n, 'keys': n, 'viol': viol, 'sample': None}


def main(tier, seed):
  rep = Report(PROP, tier, seed, 'exploration')
  allc = cases()
  cuts = 2 if tier == 'quick' else 3
  jobs = []
  for ci, c in enumerate(allc):
    # long replies: <= 1 cut in quick (the 2-cut product over 300-byte replies is large), everything else the full bound
    big = any(isinstance(a, str) and len(a) > 100 for a in c[2]) or (isinstance(c[4], str) and len(c[4]) > 100) or \
      (hasattr(c[2][0] if c[2] else None, 'content') and c[2][0].content and len(c[2][0].content) > 100)
    if big:
      for sh in range(16):
        jobs.append(([ci], 2, (sh, 16)))
    else:
      for sh in range(4 if tier == 'thorough' else 1):
        jobs.append(([ci], cuts, (sh, 4 if tier == 'thorough' else 1)))
  pool = explore.make_pool()
  try:
    out = explore.pmap('vt.checks.c14', 'run_cases', jobs, pool, seed)
    out += explore.pmap('vt.checks.c14', 'run_sequences', [([i],) for i in range(len(allc))], pool, seed)
    out += explore.pmap('vt.checks.c14', 'run_two_services', [()], pool, seed)
    out += explore.pmap('vt.checks.c14', 'run_deep_inheritance', [()], pool, seed)
    out += explore.pmap('vt.checks.c14', 'run_keyword_calls', [()], pool, seed)
    out += explore.pmap('vt.checks.c14', 'run_overlapping', [()], pool, seed)
    out += explore.pmap('vt.checks.c14', 'run_timeout_then_call', [()], pool, seed)
    out += explore.pmap('vt.checks.c14', 'run_readall', [(7 if tier == 'quick' else 9, 3 if tier == 'quick' else 4)], pool, seed)
  finally:
    pool.close()
    pool.join()
  for o in out:
    rep.add_violations(o['viol'])
    if o.get('sample'):
      rep.sample(o['sample'])
  rep.put('evaluations', sum(o['n'] for o in out))
  rep.put('distinct_nontrivial', sum(o['keys'] for o in out))
  rep.part('calls x outcomes x reply splits', engine='E', cases=len(allc), max_cut_points=cuts,
           methods=sorted(set(c[1] for c in allc)))
  rep.assumptions += ['vsvc is hand-written in the shape of compiler output (py:dynamic); encoding/decoding is done by the Thrift library',
                      'oneway calls: only the request bytes are checked (the serial transport always waits for a reply)',
                      'the accelerated binary protocol (C extension) is what the client uses; the peer uses the pure-Python protocol']
  return rep.finish(
    rule='every (interface, method, argument, server outcome) case x every split of the reply byte stream with <= k cut points plus '
         'one-byte-at-a-time, through the real serializer + transport + socket wrappers; request bytes decoded by the generated '
         'Processor; every ordered pair (and the triples containing a non-value outcome) of cases on ONE client, each call compared '
         'with its outcome on a fresh client; two clients for two interfaces with equally named methods in one process, every ordered '
         'pair of calls; an interface three levels deep (one generated module per level), every ordered pair of its methods; readAll of both socket classes over every split of short strings', exhaustive=True)


def replay(path):
  import json
  print(json.dumps(json.load(open(path)), indent=1)[:3000])
  return 0
