"""C04 - per-member load is conserved; removed members drain, then close.  (Engine B, vt/lbharness.py)"""
from .c03 import run, RULE, ASSUME
from .. import lbharness  # noqa

PROP = 'C04'
CLAUSE_PREFIXES = ('C04.', 'LB.')

CONFIGS = {
  'quick': [
    ('heap n=3 removals and re-joins', {'kind': 'heap', 'n': 3, 'ops': ['D', 'C', 'Down', 'Up', 'Join', 'Leave'],
                                        'max_out': 4, 'max_down': 1, 'max_notifications': 4}, 7),
    ('aperture n=3 min_size=1 contraction/expansion', {'kind': 'aperture', 'n': 3, 'min_size': 1,
                                                       'ops': ['D', 'C', 'Down', 'Up', 'Adv', 'Leave', 'Join'],
                                                       'max_out': 4, 'max_down': 1, 'advs': [1, 3], 'max_notifications': 2}, 7),
    ('heap n=3, a message object dispatched again while its first dispatch is outstanding',
     {'kind': 'heap', 'n': 3, 'ops': ['D', 'C', 'R', 'Leave'], 'max_out': 4, 'max_notifications': 1}, 6),
    ('aperture n=3, the wall clock steps backwards (10 s / more than an hour)',
     {'kind': 'aperture', 'n': 3, 'min_size': 1, 'ops': ['D', 'C', 'Adv', 'Back', 'Leave'], 'max_out': 3, 'advs': [1], 'max_notifications': 1}, 6),
    ('heap n=2, requests issued while the balancer is opening, some time out before it opens',
     {'kind': 'heap', 'n': 2, 'ops': ['D', 'C', 'Gate', 'TO', 'Leave'], 'gate': True, 'notifier': True, 'max_out': 3, 'max_notifications': 1}, 7),
    ('heap n=3, members addressed by a named additional endpoint', {'kind': 'heap', 'n': 3, 'endpoint_name': 'thrift',
                                                                    'ops': ['D', 'C', 'Join', 'Leave'], 'max_out': 3, 'max_notifications': 3}, 6),
    ('aperture n=3, members addressed by a named additional endpoint', {'kind': 'aperture', 'n': 3, 'min_size': 2, 'endpoint_name': 'thrift',
                                                                        'ops': ['D', 'C', 'Join', 'Leave'], 'max_out': 3, 'max_notifications': 2}, 6),
    ('heap n=3, the sink above the balancer raises in / dispatches from its reply handler',
     {'kind': 'heap', 'n': 3, 'ops': ['D', 'C', 'CX', 'CD', 'Leave'], 'max_out': 3, 'max_notifications': 2}, 7),
  ],
  'thorough': [
    ('heap n=4 removals and re-joins', {'kind': 'heap', 'n': 4, 'extra': 1, 'ops': ['D', 'C', 'Down', 'Up', 'Join', 'Leave'],
                                        'max_out': 5, 'max_down': 2, 'max_notifications': 5}, 8),
    ('aperture n=4 min_size=2', {'kind': 'aperture', 'n': 4, 'min_size': 2, 'max_size': 3,
                                 'ops': ['D', 'C', 'Down', 'Up', 'Adv', 'Leave', 'Join'],
                                 'max_out': 5, 'max_down': 2, 'advs': [1, 3], 'max_notifications': 3}, 8),
    ('aperture n=3 min_size=1', {'kind': 'aperture', 'n': 3, 'min_size': 1, 'ops': ['D', 'C', 'Down', 'Up', 'Adv', 'Leave', 'Join'],
                                 'max_out': 5, 'max_down': 2, 'advs': [0, 1, 3], 'max_notifications': 3}, 9),
  ],
}


# thorough = its own larger configurations plus every quick configuration one level deeper
_own = set(n for (n, _, _) in CONFIGS['thorough'])
CONFIGS['thorough'] = CONFIGS['thorough'] + [(name + ' [quick configuration, one level deeper]', params, depth + 1)
                                             for (name, params, depth) in CONFIGS['quick'] if name not in _own]


def main(tier, seed):
  return run(PROP, CLAUSE_PREFIXES, CONFIGS, tier, seed, RULE, ASSUME)


def replay(path):
  from . import c03
  return c03.replay(path)
