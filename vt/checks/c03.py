"""C03 - balancer sends each request to a least-loaded open member.  (Engine B, vt/lbharness.py)

C03, C04 and C05 explore the same kind of state space (real balancer + stub channels + scripted server
set); each check runs its own configurations and reports only its own clauses (a violation of a
sibling property found on the way is reported by the sibling check).
"""
from .. import bfs, lbharness
from ..report import Report

PROP = 'C03'
CLAUSE_PREFIXES = ('C03.', 'LB.')

CONFIGS = {
  'quick': [
    ('heap n=6 dispatch/complete', {'kind': 'heap', 'n': 6, 'ops': ['D', 'C'], 'max_out': 6}, 9),
    ('heap n=4 full alphabet', {'kind': 'heap', 'n': 4, 'extra': 1, 'ops': ['D', 'C', 'Down', 'Up', 'Join', 'Leave'],
                                'max_out': 4, 'max_down': 2, 'max_notifications': 2}, 6),
    ('heap n=3 members down, up and leaving in any order', {'kind': 'heap', 'n': 3, 'ops': ['D', 'C', 'Down', 'Up', 'Leave'], 'max_out': 2,
                                                            'max_down': 2, 'max_notifications': 1}, 9),
    ('heap n=3 members down and up in any order', {'kind': 'heap', 'n': 3, 'ops': ['D', 'C', 'Down', 'Up'], 'max_out': 3, 'max_down': 2}, 10),
    ('aperture n=3 min_size=1 members leaving while loaded', {'kind': 'aperture', 'n': 3, 'min_size': 1, 'ops': ['D', 'C', 'Leave', 'Join'],
                                                              'max_out': 3, 'max_notifications': 3}, 7),
    ('aperture n=3 min_size=2', {'kind': 'aperture', 'n': 3, 'min_size': 2, 'ops': ['D', 'C', 'Down', 'Up', 'Adv', 'Leave'],
                                 'max_out': 4, 'max_down': 1, 'advs': [1, 3], 'max_notifications': 1}, 6),
    ('aperture n=3 min_size=1, the wall clock steps backwards (10 s / more than an hour)',
     {'kind': 'aperture', 'n': 3, 'min_size': 1, 'ops': ['D', 'C', 'Adv', 'Back'], 'max_out': 3, 'advs': [1]}, 6),
    ('heap n=3, a message object dispatched again while its first dispatch is outstanding', {'kind': 'heap', 'n': 3, 'ops': ['D', 'C', 'R'],
                                                                                            'max_out': 4}, 7),
    ('aperture n=3 min_size=1, endpoints are named tuples', {'kind': 'aperture', 'n': 3, 'min_size': 1, 'tuple_endpoints': True,
                                                             'ops': ['D', 'C', 'Down', 'Adv', 'Leave'], 'max_out': 4, 'max_down': 1, 'advs': [3],
                                                             'max_notifications': 1}, 6),
    ('heap n=3, the reply handler above the balancer dispatches the next request', {'kind': 'heap', 'n': 3, 'ops': ['D', 'C', 'CD'],
                                                                                     'max_out': 3}, 7),
    ('aperture n=4 min_size=3, a loaded aperture with one member going down', {'kind': 'aperture', 'n': 4, 'min_size': 3,
                                                                               'ops': ['D', 'C', 'Down'], 'max_out': 7, 'max_down': 1}, 10),
    ('heap opened with an empty server set, members join and leave later', {'kind': 'heap', 'n': 0, 'extra': 2, 'ops': ['D', 'C', 'Join', 'Leave'],
                                                                            'max_out': 2, 'max_notifications': 4}, 7),
    ('aperture opened with an empty server set, members join and leave later', {'kind': 'aperture', 'n': 0, 'extra': 2, 'min_size': 1,
                                                                                'ops': ['D', 'C', 'Join', 'Leave'], 'max_out': 2,
                                                                                'max_notifications': 4}, 7),
  ],
  'thorough': [
    ('heap n=7 dispatch/complete', {'kind': 'heap', 'n': 7, 'ops': ['D', 'C'], 'max_out': 7}, 11),
    ('heap n=5 full alphabet', {'kind': 'heap', 'n': 5, 'extra': 1, 'ops': ['D', 'C', 'Down', 'Up', 'Join', 'Leave'],
                                'max_out': 5, 'max_down': 2, 'max_notifications': 3}, 8),
    ('aperture n=4 min_size=2 max_size=3', {'kind': 'aperture', 'n': 4, 'min_size': 2, 'max_size': 3,
                                            'ops': ['D', 'C', 'Down', 'Up', 'Adv', 'Leave', 'Join'], 'extra': 1,
                                            'max_out': 5, 'max_down': 2, 'advs': [1, 3], 'max_notifications': 2}, 8),
    ('aperture n=3 min_size=1', {'kind': 'aperture', 'n': 3, 'min_size': 1, 'ops': ['D', 'C', 'Down', 'Up', 'Adv'],
                                 'max_out': 5, 'max_down': 2, 'advs': [1, 3]}, 9),
    ('heap opened with an empty server set, members join, leave and go down later',
     {'kind': 'heap', 'n': 0, 'extra': 3, 'ops': ['D', 'C', 'Join', 'Leave', 'Down', 'Up'], 'max_out': 3, 'max_notifications': 5, 'max_down': 1}, 9),
    ('aperture opened with an empty server set, members join, leave and go down later',
     {'kind': 'aperture', 'n': 0, 'extra': 3, 'min_size': 1, 'ops': ['D', 'C', 'Join', 'Leave', 'Down', 'Up'], 'max_out': 3,
      'max_notifications': 5, 'max_down': 1}, 9),
  ],
}


def expand(params, hist):
  return lbharness.expand(params, hist)


def run(prop, prefixes, configs, tier, seed, rule, assumptions):
  rep = Report(prop, tier, seed, 'model_checking')
  pool = bfs.make_pool()
  try:
    for name, params, depth in configs[tier]:
      params = dict(params, prefixes=list(prefixes))
      res = bfs.run_bfs('vt.lbharness', 'expand', params, depth, pool, seed=seed, stop_on_violation=False)
      other = [v for v in res.violations if not v['clause'].startswith(prefixes)]
      res.violations = [v for v in res.violations if v['clause'].startswith(prefixes)]
      rep.add_bfs(name, res, depth, params=params, replay_base={'params': params})
      if other:
        rep.part(name + ' (sibling clauses seen, reported by their own checks)',
                 clauses=sorted(set(v['clause'] for v in other)))
  finally:
    pool.close()
    pool.join()
  rep.assumptions += assumptions
  return rep.finish(rule=rule, exhaustive=True)


RULE = ('BFS over histories of dispatch / complete / member down+up / join+leave / clock advance operations on the real '
        'balancer with stub channels, every outcome of the balancer\'s internal randint/choice enumerated as separate '
        'transitions; states are distinct by (heap array incl. loads and positions, down queue, draining nodes, idle and '
        'pending sets, EMA, channel states, reference model); each transition is an implementation run checked against '
        'the reference model')
ASSUME = ['stub channels answer Open() at once; channel state is Open or Closed',
          'requests to one member are interchangeable (complete = oldest outstanding on that channel)',
          'bounds: members, outstanding requests, simultaneous down members and notifications as listed per part']


# thorough = its own larger configurations plus every quick configuration one level deeper
_own = set(n for (n, _, _) in CONFIGS['thorough'])
CONFIGS['thorough'] = CONFIGS['thorough'] + [(name + ' [quick configuration, one level deeper]', params, depth + 1)
                                             for (name, params, depth) in CONFIGS['quick'] if name not in _own]


def main(tier, seed):
  return run(PROP, CLAUSE_PREFIXES, CONFIGS, tier, seed, RULE, ASSUME)


def replay(path):
  import json
  from .. import world
  world.boot()
  v = json.load(open(path))
  rp = v['replay']
  for line in lbharness.describe(rp['params'], rp['history']):
    print(line)
  return 0
