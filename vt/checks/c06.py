"""C06 - aperture keeps a partitioned, bounded, load-tracking active subset.  (Engine B over virtual time)

Part 1 (BFS): configurations x histories of dispatch / complete / clock advance / member down+up /
join+leave / pending-open outcomes / jitter rounds; partition, bounds, EMA tracking and step response
are checked on every transition.  Part 2 (settling): for every configuration and every steady
traffic level k, k requests are kept outstanding with one put+get per 100 ms for 12 smoothing
windows; at the end the per-member load is inside the band or the size is pinned.
"""
import itertools

from .. import bfs, explore, lbharness, vloop, world
from ..report import Report

PROP = 'C06'
PREFIXES = ('C06.', 'LB.')


def cfg(n, mn, mx, hi, **kw):
  d = {'kind': 'aperture', 'n': n, 'min_size': mn, 'max_size': mx, 'min_load': 0.5, 'max_load': hi, 'c06': True}
  d.update(kw)
  return d


TRAFFIC = ['D', 'C', 'Adv']
CONFIGS = {
  'quick': [
    ('n=3 min1 max2 hi1.0 traffic+time', cfg(3, 1, 2, 1.0, ops=TRAFFIC, advs=[0, 2, 3], max_out=4), 8),
    ('n=4 min2 max3 hi2.0 traffic+time+failures', cfg(4, 2, 3, 2.0, ops=TRAFFIC + ['Down', 'Up'], advs=[1, 3], max_out=5, max_down=1), 7),
    ('n=4 min2 max3 hi2.0 a member\'s channel closes and the member leaves', cfg(4, 2, 3, 2.0, ops=TRAFFIC + ['Down', 'Leave'], advs=[1], max_out=3,
                                                                                 max_down=1, max_notifications=1), 6),
    ('n=4 stock settings (min 1, no max, band 0.5..2.0), built after another balancer was given its own settings',
     dict(cfg(4, 1, 2 ** 31, 2.0, ops=TRAFFIC, advs=[2, 3], max_out=5), stock_after_prior=True, jitter_min=120, jitter_max=240), 6),
    ('n=3 min1 max2 hi1.0 requests 0.4 ms apart', cfg(3, 1, 2, 1.0, ops=TRAFFIC, advs=[4, 2], max_out=4), 7),
    ('n=3 min1 max3 hi1.0 the wall clock steps back 10 s once', cfg(3, 1, 3, 1.0, ops=TRAFFIC + ['Back'], advs=[2, 3], max_out=4), 7),
    ('n=3 min1 max2 hi1.0 next to a second balancer with a pending open', cfg(3, 1, 2, 1.0, ops=TRAFFIC, advs=[2, 3], max_out=3,
                                                                             bystander_pending=True), 7),
    ('n=3 min1 unbounded hi1.0 joins/leaves', cfg(3, 1, 2 ** 31, 1.0, extra=1, ops=TRAFFIC + ['Join', 'Leave'], advs=[2, 3], max_out=4,
                                              max_notifications=2), 7),
    ('n=3 min1 max3 hi1.0 pending opens', cfg(3, 1, 3, 1.0, ops=TRAFFIC + ['Open'], advs=[2, 3], max_out=4, open_mode='pending', ok_first=1), 7),
    ('n=3 min1 max2 hi1.0 jitter', cfg(3, 1, 2, 1.0, ops=TRAFFIC, advs=[1], max_out=3, jitter_min=1, jitter_max=2, key_timers=True), 7),
    ('n=2 min1 max2 hi1.0 a dead member stays active, a new member joins, load rises',
     cfg(2, 1, 2, 1.0, extra=1, ops=TRAFFIC + ['Down', 'Join'], advs=[3], max_out=4, max_down=1, max_notifications=1), 8),
    ('n=3 min2 max3 hi2.0 jitter round with a pending open and a member leaving',
     cfg(3, 2, 3, 2.0, ops=['D', 'C', 'Adv', 'Open', 'Leave'], advs=[1], max_out=2, jitter_min=1, jitter_max=2, key_timers=True,
         open_mode='pending', ok_first=2, max_notifications=1), 7),
    ('n=2 min1 max2 hi1.0 the only active member goes down while its replacement is still opening',
     cfg(2, 1, 2, 1.0, ops=['D', 'C', 'Adv', 'Down', 'Open'], advs=[3], max_out=3, max_down=1, open_mode='pending', ok_first=1), 7),
    ('n=3 min1 max3 hi1.0 every member may be down at once, requests keep arriving and are answered',
     cfg(3, 1, 3, 1.0, ops=['D', 'C', 'Adv', 'Down'], advs=[3], max_out=3, max_down=3), 7),
  ],
  'thorough': [
    ('n=2 min1 max2 hi1.0 the only active member goes down while its replacement is still opening',
     cfg(2, 1, 2, 1.0, ops=['D', 'C', 'Adv', 'Down', 'Up', 'Open'], advs=[1, 3], max_out=4, max_down=2, open_mode='pending', ok_first=1), 8),
    ('n=3 min1 max3 hi1.0 every member may be down at once, requests keep arriving and are answered',
     cfg(3, 1, 3, 1.0, ops=['D', 'C', 'Adv', 'Down', 'Up'], advs=[1, 3], max_out=4, max_down=3), 8),
    ('n=3 min1 max2 hi1.0 traffic+time', cfg(3, 1, 2, 1.0, ops=TRAFFIC, advs=[0, 1, 2, 3], max_out=5), 9),
    ('n=4 min2 max3 hi2.0 traffic+time+failures', cfg(4, 2, 3, 2.0, ops=TRAFFIC + ['Down', 'Up'], advs=[1, 3], max_out=6, max_down=2), 8),
    ('n=3 min1 max2 hi1.0 requests 0.4 ms apart', cfg(3, 1, 2, 1.0, ops=TRAFFIC, advs=[4, 2], max_out=4), 8),
    ('n=4 min1 unbounded hi1.0 joins/leaves', cfg(4, 1, 2 ** 31, 1.0, extra=1, ops=TRAFFIC + ['Join', 'Leave', 'Down', 'Up'], advs=[2, 3],
                                              max_out=5, max_notifications=3, max_down=1), 8),
    ('n=4 min2 max4 hi1.0 pending opens', cfg(4, 2, 4, 1.0, ops=TRAFFIC + ['Open', 'Down'], advs=[2, 3], max_out=5, max_down=1,
                                              open_mode='pending', ok_first=2), 8),
    ('n=3 min1 max2 hi1.0 jitter', cfg(3, 1, 2, 1.0, ops=TRAFFIC + ['Down', 'Up'], advs=[1], max_out=4, max_down=1, jitter_min=1, jitter_max=2,
                                       key_timers=True), 8),
    ('n=3 min2 max3 hi2.0 jitter+pending', cfg(3, 2, 3, 2.0, ops=TRAFFIC + ['Open'], advs=[1], max_out=4, jitter_min=1, jitter_max=2,
                                               key_timers=True, open_mode='pending', ok_first=2), 7),
    ('n=3 min2 max3 hi2.0 jitter round with a pending open and a member leaving',
     cfg(3, 2, 3, 2.0, ops=['D', 'C', 'Adv', 'Open', 'Leave', 'Join'], advs=[1], max_out=3, jitter_min=1, jitter_max=2, key_timers=True,
         open_mode='pending', ok_first=2, max_notifications=2), 8),
  ],
}


def settle(params, k, prefix=None):
  """Steady traffic level k for 12 smoothing windows; returns a verdict dict.  prefix 'crash-leave': before the traffic starts an
  active member's channel closes and the member then leaves the server set (no request has noticed the closed channel)."""
  world.reset()
  w = lbharness.LbWorld(params)
  lp = vloop.loop()
  if prefix == 'crash-leave':
    e = w.active_eps()[0]
    w.apply(['Down', e, []])
    w.apply(['Leave', e, []])
  for _ in range(k):
    w.apply(['D', []])
  steps = int(12 * 5 / 0.1)
  sizes = []
  for i in range(steps):
    w.apply(['Adv', 0, []])
    if k > 0:
      out = [r for r in w.requests if not r['done'] and r['serial'] is not None]
      if out:
        w.apply(['C', out[0]['serial'], []])
      w.apply(['D', []])
    sizes.append(len(w.heap_nodes()))
    if w.viol:
      break
  size = len(w.heap_nodes())
  members = len(w.members)
  mn, mx = min(params['min_size'], members), min(params['max_size'], members)
  load = (w.lb._ema.value / size) if size else float('inf')
  viol = [v for v in w.viol if v['clause'].startswith(PREFIXES)]
  inside = params['min_load'] < load < params['max_load']
  pinned = size == mn or size >= mx
  if k > 0 and not (inside or pinned):
    viol.append({'clause': 'C06.settle', 'sig': {},
                 'message': '%ssteady level k=%d for 12 windows: size %d (min %d, max %d), per-member load %.3f outside (%.2f, %.2f); sizes over time %r'
                 % ('an active member\'s channel closed and it left the server set, then ' if prefix else '', k, size, mn, mx, load, params['min_load'], params['max_load'], sizes[::60])})
  return {'k': k, 'size': size, 'load': round(load, 4), 'inside': inside, 'pinned': pinned, 'viol': viol,
          'steps': steps, 'params': params, 'prefix': prefix}


def settle_configs(tier):
  out = []
  ns = [3, 4] if tier == 'quick' else [3, 4, 5]
  for n in ns:
    for mn in (1, 2):
      for mx in (2, 3, 2 ** 31):
        for hi in (1.0, 2.0):
          if mn > mx or mn > n:
            continue
          out.append(cfg(n, mn, mx, hi, ops=[], c06_response=True))
  return out


def main(tier, seed):
  rep = Report(PROP, tier, seed, 'model_checking')
  pool = bfs.make_pool()
  try:
    for name, params, depth in CONFIGS[tier]:
      params = dict(params, prefixes=list(PREFIXES))
      res = bfs.run_bfs('vt.lbharness', 'expand', params, depth, pool, seed=seed, stop_on_violation=False)
      res.violations = [v for v in res.violations if v['clause'].startswith(PREFIXES)]
      rep.add_bfs(name, res, depth, params=params, replay_base={'params': params})
    jobs = []
    for c in settle_configs(tier):
      top = int(2 * c['max_load'] * c['n'])
      for k in range(0, top + 1):
        jobs.append((c, k))
        if k <= 2 and c['n'] > c['min_size']:
          jobs.append((c, k, 'crash-leave'))
    out = explore.pmap('vt.checks.c06', 'settle', jobs, pool, seed)
    nin = sum(1 for o in out if o['inside'])
    npin = sum(1 for o in out if o['pinned'] and not o['inside'])
    for o in out:
      rep.add_violations(o['viol'], {'settle': {'params': o['params'], 'k': o['k']}})
    rep.add('evaluations', sum(o['steps'] for o in out))
    rep.add('traces_validated_against_impl', len(out))
    rep.part('settling runs', engine='deterministic sweep', runs=len(out), settled_inside_band=nin, pinned_at_bound=npin,
             configurations=len(settle_configs(tier)))
    rep.sample({'settling': [{'k': o['k'], 'n': o['params']['n'], 'min': o['params']['min_size'], 'size': o['size'], 'load': o['load']}
                             for o in out[:4]]})
  finally:
    pool.close()
    pool.join()
  rep.assumptions += ['stub channels; channel state Open/Closed (pending opens where listed)',
                      'one virtual clock for MonoClock, the EMA and the jitter timer queue',
                      'step response is checked on steps in which every active member is open (down-driven growth is exempt as stated)']
  return rep.finish(
    rule='BFS over histories on the real ApertureBalancerSink (see parts for configurations and depth); every transition checks '
         'partition, min/max bounds, EMA == independently recomputed EMA, and the step response; plus deterministic settling '
         'sweeps over configuration x steady traffic level', exhaustive=True)


def replay(path):
  import json
  world.boot()
  v = json.load(open(path))
  rp = v['replay']
  if 'settle' in rp:
    print(settle(rp['settle']['params'], rp['settle']['k']))
    return 0
  for line in lbharness.describe(rp['params'], rp['history']):
    print(line)
  return 0
