"""C12 - timed-out calls are never transmitted afterwards; sent ones are discarded.  (Engine S)

Scenarios put the deadline at every hop of the request path: dispatcher/balancer waiting for the open,
pool queue (max 1), connect in progress, multiplexed send queue (back-pressure), on the wire.
"""
from .c01 import run, RULE, ASSUME

PROP = 'C12'
PREFIXES = ('C12.', 'STACK.')


def scenarios(tier):
  out = []
  for stack in ('thrift', 'mux'):
    out.append(('%s waiting for open / connect in progress (slow connect)' % stack,
                {'stack': stack, 'endpoints': 1, 'ops': [('call', 'w0', 0.0525), ('call', 'w1', 0.2525)], 'open_timeout': 0,
                 'faults': ['stall', 'refuse', 'drop'], 'connect_delay': 0.1025, 'timeout': 0.5025}))
    out.append(('%s on the wire: replies late or lost, 3 calls' % stack,
                {'stack': stack, 'endpoints': 1, 'ops': [('call', 'x0', 0.1025), ('call', 'x1', 0.2025), ('call', 'x2')],
                 'faults': ['drop', 'reset', 'eof'], 'timeout': 0.5025}))
  out.append(('thrift pool queue (max 1, queue 2), 3 calls with staggered deadlines',
              {'stack': 'thrift', 'endpoints': 1, 'ops': [('call', 'y0'), ('call', 'y1', 0.1025), ('call', 'y2', 0.2025)],
               'pool': {'max_watermark': 1, 'max_queue_len': 2}, 'faults': ['drop', 'reset', 'stall'], 'timeout': 0.5025}))
  out.append(('thrift pool creating a second connection while the deadline passes',
              {'stack': 'thrift', 'endpoints': 1, 'ops': [('call', 'z0'), ('call', 'z1', 0.0525)],
               'pool': {'max_watermark': 2, 'max_queue_len': 2}, 'faults': ['drop', 'stall'], 'connect_delay': 0.1025, 'timeout': 0.5025}))
  out.append(('mux send queue under back-pressure, 3 calls',
              {'stack': 'mux', 'endpoints': 1, 'ops': [('call', 'v0', 0.1025), ('call', 'v1', 0.2025), ('call', 'v2')],
               'faults': ['block', 'drop'], 'timeout': 0.5025}))
  out.append(('mux 2 endpoints, member leaves, 2 calls',
              {'stack': 'mux', 'endpoints': 2, 'ops': [('call', 'u0', 0.1025), ('call', 'u1')], 'faults': ['drop', 'reset'],
               'scripted_serverset': True, 'membership': [('leave', 0)], 'timeout': 0.5025}))
  out.append(('mux behind a singleton pool: deadline while the pool is connecting (slow connect)',
              {'stack': 'mux', 'mux_pool': 'singleton', 'endpoints': 1, 'ops': [('call', 's0', 0.0525), ('call', 's1', 0.2525)], 'open_timeout': 0,
               'faults': ['stall', 'drop'], 'connect_delay': 0.1025, 'timeout': 0.5025}))
  out.append(('mux, a 70 KB request and a deadline that may fire between two ready callbacks',
              {'stack': 'mux', 'endpoints': 1, 'ops': [('call', 'B0', 0.0525, 'big'), ('call', 'B1', 0.1025)], 'faults': ['block'],
               'timeout': 0.5025, 'max_preempt': 1, '_bound': 2}))
  # tags beyond 16 bits (tag counter jumps as if the tags in between were held by requests that were never answered)
  out.append(('mux on the wire with a tag above 65535: replies late or lost',
              {'stack': 'mux', 'endpoints': 1, 'ops': [('call', 't0', 0.2025), ('call', 't1', 0.1025), ('call', 't2')],
               'faults': ['drop'], 'timeout': 0.5025, 'tag_jump': [2, 65538]}))
  # the same hops with one preemption allowed: a timer may expire between two ready callbacks (e.g. between a
  # hop's last deadline check and its write)
  pre = []
  for name, params in out:
    if 'member leaves' in name or 'tag above' in name or '70 KB' in name:
      continue
    q = dict(params)
    q['max_preempt'] = 1
    q['_bound'] = 2 if tier == 'quick' else 3
    pre.append((name + ' [+1 preemption]', q))
  return out + pre


def transport_scenarios(tier):
  """The mux / kafka transport driven directly (vt/checks/c11.py harness): requests are issued while the transport is still
  opening, and a request's deadline (what ClientTimeoutSink does) may fire at any quiescent point or - one preemption -
  between any two ready callbacks."""
  out = []
  for proto in ('mux', 'kafka'):
    out.append(('%s transport: requests issued while it opens, deadline between callbacks' % proto,
                {'proto': proto, 'ops': [['req', 'a', True], ['req', 'b', True]], 'max_adversarial': 0, 'early': True, 'max_preempt': 1}, 3))
    out.append(('%s transport: 3 requests on an open transport, deadline between callbacks' % proto,
                {'proto': proto, 'ops': [['req', 'a', True], ['req', 'b', True], ['req', 'c']], 'max_adversarial': 0, 'max_preempt': 1}, 2))
  out.append(('mux transport behind a singleton pool: requests issued while the pool connects, deadlines firing meanwhile',
              {'proto': 'mux', 'singleton_pool': True, 'ops': [['req', 'a', True], ['req', 'b', True], ['req', 'c']], 'max_adversarial': 0,
               'early': True}, 3))
  return out


def main(tier, seed):
  from .. import explore
  from ..report import Report
  rep = Report(PROP, tier, seed, 'model_checking')
  pool = explore.make_pool()
  try:
    bound = 3 if tier == 'quick' else 4
    for name, params in scenarios(tier):
      b = params.pop('_bound', bound)
      agg = explore.explore('vt.stackharness', 'run_exec', params, b, seed=seed, pool=pool, split_levels=1 if b <= 2 else 2)
      agg.violations = [v for v in agg.violations if v['clause'].startswith(PREFIXES)]
      rep.add_explore(name, agg, b, params=params)
    for name, params, b in transport_scenarios(tier):
      b = b + (1 if tier == 'thorough' else 0)
      agg = explore.explore('vt.checks.c11', 'run_exec', params, b, seed=seed, pool=pool, split_levels=1 if b <= 2 else 2)
      agg.violations = [v for v in agg.violations if v['clause'].startswith('C12.')]
      rep.add_explore(name, agg, b, params=params)
    # a deadline that fires while the periodic Tping (30 s after the open) is unanswered: the request is on the wire, so the peer must
    # be sent a Tdiscarded naming its tag (the C08 script driver; the peer answers neither the second Tping nor the request)
    from ..refcodec import mux as _M
    for gap in ((0.1, 0.4) if tier == 'quick' else (0.05, 0.1, 0.2, 0.4, 0.45)):
      pp = {'transport': 'mux', 'withhold': ['ping2', 'r2'],
            'script': [['req', 'r1'], ['wait', 30.0 - gap, 1.0], ['req', 'r2', 0.5025], ['wait', 3.0, 0.05]]}
      r = explore.pmap('vt.checks.c08', 'run_discard_probe', [(pp,)], pool, seed)[0]
      types = [f[0] for f in r['frames']]
      npings = types.count(_M.T_PING)
      rep.add('evaluations', 1)
      rep.part('mux transport: deadline of a sent request fires %.2f s before.. after the periodic Tping, Rping withheld' % gap,
               engine='scripted', executions=1, frames_seen_by_peer=len(types), pings=npings, outcome=r['outcome'])
      if npings >= 2 and 'r2=error(TimeoutError' in r['outcome'] and _M.T_DISCARDED not in types:
        rep.add_violations([{'clause': 'C12.no-discard', 'message': 'request r2 was on the wire and timed out while the periodic Tping was '
                             'unanswered, but the peer never received a Tdiscarded; frames seen by the peer: %r' % (r['frames'],),
                             'sig': {'part': 'ping'}, 'replay': {'ping_probe': pp}}])
    # the hop "waiting for the balancer to open": driven at the balancer itself (engine B, vt/lbharness.py), because in the stacks the
    # public builders make the dispatcher holds a call back until the balancer is open
    from .. import bfs
    for kind in ('heap', 'aperture'):
      lbp = {'kind': kind, 'n': 2, 'ops': ['D', 'C', 'Gate', 'TO'], 'gate': True, 'notifier': True, 'max_out': 3, 'prefixes': ['C12.']}
      if kind == 'aperture':
        lbp['min_size'] = 1
      res = bfs.run_bfs('vt.lbharness', 'expand', lbp, 6 if tier == 'quick' else 8, pool, seed=seed, stop_on_violation=False)
      res.violations = [v for v in res.violations if v['clause'].startswith('C12.')]
      rep.add_bfs('%s balancer: requests waiting for it to open, deadlines firing meanwhile' % kind, res, 6 if tier == 'quick' else 8,
                  params=lbp, replay_base={'params': lbp})
  finally:
    pool.close()
    pool.join()
  rep.assumptions += ASSUME + ['a deadline exactly equal to the clock at a hop is outside the alphabet (off-tick deadlines)',
                               'back-pressure = sendall blocks until the environment unblocks the connection',
                               'transport-level parts: the deadline firing is ClientTimeoutSink\'s action run as one ready callback at any position']
  return rep.finish(rule=RULE, exhaustive=True)


def _unused_main(tier, seed):
  return run(PROP, PREFIXES, scenarios(tier), tier, seed, 3 if tier == 'quick' else 4, RULE,
             ASSUME + ['a deadline exactly equal to the clock at a hop is outside the alphabet (off-tick deadlines)',
                       'back-pressure = sendall blocks until the environment unblocks the connection'])


def replay(path):
  import json
  rp = json.load(open(path)).get('replay', {})
  if 'ping_probe' in rp:
    from . import c08
    from .. import world
    from ..refcodec import mux as _M
    world.boot()
    r = c08.run_discard_probe(rp['ping_probe'])
    print('frames seen by the peer:', r['frames'])
    print('outcome:', r['outcome'])
    bad = _M.T_DISCARDED not in [f[0] for f in r['frames']]
    if bad:
      print('VIOLATION-DETAIL C12.no-discard no Tdiscarded reached the peer')
    return 1 if bad else 0
  if 'history' in rp:
    from . import c03
    return c03.replay(path)
  from . import c01
  return c01.replay(path)
