"""C07 - watermark pool bounds concurrency, queues FIFO and never leaks capacity.  (Engine B, vt/poolharness.py)"""
from .. import bfs, poolharness
from ..report import Report

PROP = 'C07'


def configs(tier):
  out = []
  triples = [(0, 1, 0), (0, 1, 1), (1, 1, 1), (1, 1, 2), (0, 2, 1), (1, 2, 0), (1, 2, 1), (1, 2, 2), (2, 2, 1), (2, 2, 2),
             (1, 3, 1), (2, 3, 1), (0, 3, 2), (2, 3, 2)]
  if tier == 'thorough':
    triples = [(a, b, c) for a in (0, 1, 2) for b in (1, 2, 3) for c in (0, 1, 2) if a <= b]
  for (mn, mx, ql) in triples:
    depth = 12 if tier == 'quick' else 14
    out.append(('min=%d max=%d qlen=%d' % (mn, mx, ql),
                {'min': mn, 'max': mx, 'qlen': ql, 'ops': ['Req', 'Done', 'Timeout', 'Die'], 'max_active': mx + ql + 1,
                 'max_reqs': 8 if tier == 'quick' else 10, 'max_die': 1 if tier == 'quick' else 2}, depth))
  # connection creation that takes time (requests blocked inside the pool while a connection opens)
  for (mn, mx, ql) in ([(1, 2, 1)] if tier == 'quick' else [(1, 2, 1), (0, 2, 2), (1, 3, 1)]):
    out.append(('pending opens min=%d max=%d qlen=%d' % (mn, mx, ql),
                {'min': mn, 'max': mx, 'qlen': ql, 'ops': ['Req', 'Done', 'Timeout', 'Open'], 'max_active': mx + ql + 1,
                 'max_reqs': 4 if tier == 'quick' else 5, 'open_mode': 'pending', 'ok_first': 1}, 7 if tier == 'quick' else 8))
  # operations landing between two ready callbacks (e.g. between a release and the queued _ProcessQueue)
  for (mn, mx, ql) in ([(1, 1, 2)] if tier == 'quick' else [(1, 1, 2), (1, 2, 2)]):
    out.append(('preemption min=%d max=%d qlen=%d' % (mn, mx, ql),
                {'min': mn, 'max': mx, 'qlen': ql, 'ops': ['Req', 'Done', 'Timeout'], 'max_active': mx + ql + 1,
                 'max_reqs': 4, 'max_preempt': 2, 'preempt_depth': 2}, 6 if tier == 'quick' else 8))
  return out


def main(tier, seed):
  rep = Report(PROP, tier, seed, 'model_checking')
  pool = bfs.make_pool()
  try:
    for name, params, depth in configs(tier):
      res = bfs.run_bfs('vt.poolharness', 'expand', params, depth, pool, seed=seed, stop_on_violation=False)
      rep.add_bfs(name, res, depth, params=params, replay_base={'params': params})
  finally:
    pool.close()
    pool.join()
  rep.assumptions += [
    'a connection that dies while carrying a request fails that request itself (what the transports do, C08)',
    'a request that already holds a connection times out through that connection\'s own response; Timeout is applied to queued requests only',
    'entries of timed-out waiters not yet skipped may or may not count toward max_queue_len (the statement leaves it open)']
  return rep.finish(
    rule='BFS over histories of request / completion / queued-timeout / connection-death / open-outcome operations on the real '
         'WatermarkPoolSink for each (min, max, queue) configuration; states distinct by pool state, size, cache, waiter list, '
         'per-connection and per-request status; every transition is an implementation run checked against the reference model, '
         'and every idle state is probed with a burst of max requests', exhaustive=True)


def replay(path):
  import json
  from .. import world
  world.boot()
  v = json.load(open(path))
  rp = v['replay']
  for line in poolharness.describe(rp['params'], rp['history']):
    print(line)
  return 0
