"""C07 - watermark pool bounds concurrency, queues FIFO and never leaks capacity.  (Engine B, vt/poolharness.py)"""
from .. import bfs, poolharness
from ..report import Report

PROP = 'C07'


def configs(tier):
  out = []
  triples = [(0, 1, 0), (0, 1, 1), (1, 1, 1), (1, 1, 2), (0, 2, 1), (1, 2, 0), (1, 2, 1), (1, 2, 2), (2, 2, 1), (2, 2, 2),
             (1, 3, 1), (2, 3, 1), (0, 3, 2), (2, 3, 2)]
  if tier == 'thorough':
    triples = [(a, b, c) for a in (0, 1, 2) for b in (1, 2, 3) for c in (0, 1, 2) if a <= b]
  for (mn, mx, ql) in triples:
    depth = 12 if tier == 'quick' else 18
    out.append(('min=%d max=%d qlen=%d' % (mn, mx, ql),
                {'min': mn, 'max': mx, 'qlen': ql, 'ops': ['Req', 'Done', 'Timeout', 'Die'], 'max_active': mx + ql + 1,
                 'max_reqs': 8 if tier == 'quick' else 12, 'max_die': 1 if tier == 'quick' else 3}, depth))
  # connection creation that takes time (requests blocked inside the pool while a connection opens)
  for (mn, mx, ql) in ([(1, 2, 1)] if tier == 'quick' else [(1, 2, 1), (0, 2, 2), (1, 3, 1)]):
    out.append(('pending opens min=%d max=%d qlen=%d' % (mn, mx, ql),
                {'min': mn, 'max': mx, 'qlen': ql, 'ops': ['Req', 'Done', 'Timeout', 'Open'], 'max_active': mx + ql + 1,
                 'max_reqs': 4 if tier == 'quick' else 6, 'open_mode': 'pending', 'ok_first': 1}, 7 if tier == 'quick' else 11))
  # a pool that leaves max_queue_len at its default, built after another pool of the process was given a queue length of 1
  out.append(('default queue length, after another pool was configured min=1 max=1',
              {'min': 1, 'max': 1, 'qlen': 2147483647, 'ops': ['Req', 'Done', 'Timeout'], 'max_active': 5, 'max_reqs': 5, 'stock_after_prior': True}, 7))
  # pools whose settings were given as overrides of another provider's (provider.Clone(...)), zero values included
  for (mn, mx, ql) in ([(0, 1, 0), (0, 2, 1), (1, 1, 0)] if tier == 'quick' else [(0, 1, 0), (0, 2, 1), (1, 1, 0), (0, 2, 0), (2, 3, 0), (0, 1, 2)]):
    out.append(('settings given through Clone() min=%d max=%d qlen=%d' % (mn, mx, ql),
                {'min': mn, 'max': mx, 'qlen': ql, 'ops': ['Req', 'Done', 'Timeout'], 'max_active': mx + ql + 1, 'max_reqs': 5,
                 'via_clone': True}, 7 if tier == 'quick' else 10))
  # requests that arrive while the pool's own Open() is still waiting for its first (warm-up) connection
  for (mn, mx, ql) in ([(1, 1, 2)] if tier == 'quick' else [(1, 1, 2), (1, 2, 2), (0, 1, 2)]):
    out.append(('warm-up connection still opening min=%d max=%d qlen=%d' % (mn, mx, ql),
                {'min': mn, 'max': mx, 'qlen': ql, 'ops': ['Req', 'Done', 'Timeout', 'Open'], 'max_active': mx + ql + 1,
                 'max_reqs': 4 if tier == 'quick' else 6, 'open_mode': 'pending', 'ok_first': 0}, 7 if tier == 'quick' else 11))
  # a consumer that re-enters the pool from the callback that fails a queued request when the pool closes
  for (mn, mx, ql) in ([(0, 1, 2), (1, 2, 2)] if tier == 'quick' else [(0, 1, 2), (1, 2, 2), (0, 2, 3), (1, 1, 3)]):
    out.append(('re-entrant consumer min=%d max=%d qlen=%d' % (mn, mx, ql),
                {'min': mn, 'max': mx, 'qlen': ql, 'ops': ['Req', 'Done', 'Die'], 'max_active': mx + ql + 1, 'reenter': True,
                 'max_reqs': 5 if tier == 'quick' else 7, 'max_die': 1 if tier == 'quick' else 2}, 8 if tier == 'quick' else 13))
  # operations landing between two ready callbacks (e.g. between a release and the queued _ProcessQueue)
  for (mn, mx, ql) in ([(1, 1, 2)] if tier == 'quick' else [(1, 1, 2), (1, 2, 2)]):
    out.append(('preemption min=%d max=%d qlen=%d' % (mn, mx, ql),
                {'min': mn, 'max': mx, 'qlen': ql, 'ops': ['Req', 'Done', 'Timeout'], 'max_active': mx + ql + 1,
                 'max_reqs': 4 if tier == 'quick' else 5, 'max_preempt': 2, 'preempt_depth': 2}, 6 if tier == 'quick' else 10))
  return out


def burst(n_waiters, mx):
  """Scale: `mx` requests hold all connections, n_waiters more are queued; the connections answer every request they are
  given *synchronously* (inside AsyncProcessRequest), so completing the first requests sets off a chain in which each release
  starts the next waiter.  Every request must be answered exactly once, in FIFO order, and the pool must keep its capacity."""
  import gevent
  from scales.constants import SinkProperties
  from scales.message import MethodCallMessage, MethodReturnMessage
  from scales.pool.watermark import WatermarkPoolSink
  from scales.sink import ClientMessageSinkStack
  from .. import stubs, vloop, world
  world.reset()
  lp = vloop.loop()
  reg = stubs.Registry()
  held = {}
  order = []
  sync = [False]

  def on_request(ch, rid, sink_stack, msg):
    order.append(rid)
    if sync[0]:
      sink_stack.AsyncProcessResponseMessage(MethodReturnMessage(return_value='r%d' % rid))
    else:
      held[rid] = sink_stack
  reg.on_request = on_request
  builder = WatermarkPoolSink.Builder(min_watermark=0, max_watermark=mx, max_queue_len=n_waiters)
  builder.next_provider = stubs.StubProvider(reg)
  pool = builder.CreateSink({SinkProperties.Endpoint: stubs.make_endpoint(0), SinkProperties.Label: 'svc'})
  term = stubs.make_terminal_class()()
  pool.Open()
  vloop.run_ready()
  total = mx + n_waiters
  for rid in range(1, total + 1):
    msg = MethodCallMessage(None, 'm', (), {})
    msg.properties['__rid'] = rid
    st = ClientMessageSinkStack()
    st.Push(term, rid)
    gevent.spawn(pool.AsyncProcessRequest, st, msg, None, {})
  vloop.run_ready()
  viol = []
  if sorted(held) != list(range(1, mx + 1)):
    viol.append('with max=%d and %d requests, the requests holding a connection are %r' % (mx, total, sorted(held)[:10]))
  sync[0] = True
  raised = []
  for rid in sorted(held):
    try:
      held[rid].AsyncProcessResponseMessage(MethodReturnMessage(return_value='r%d' % rid))
    except Exception as e:  # noqa  (in the real stack this unwinds into the transport's reply greenlet)
      raised.append(type(e).__name__)
    vloop.run_ready()
  vloop.run_ready()
  answered = [rid for rid in range(1, total + 1) if len(term.responses.get(rid, [])) == 1 and term.responses[rid][0][1].error is None]
  if len(answered) != total:
    missing = [rid for rid in range(1, total + 1) if rid not in answered]
    viol.append('%d of %d requests were not answered exactly once with their reply (first: %r; delivering a reply raised %r; loop errors: %r)'
                % (len(missing), total, missing[:5], raised[:2], [(e[1], str(e[2])[:60]) for e in lp.errors[:2]]))
  elif order != list(range(1, total + 1)):
    viol.append('queued requests were not started in arrival order: %r ...' % (order[:12],))
  # capacity is intact: a further burst of max requests gets max connections at once
  n0 = len(order)
  sync[0] = False
  for rid in range(total + 1, total + mx + 1):
    msg = MethodCallMessage(None, 'm', (), {})
    msg.properties['__rid'] = rid
    st = ClientMessageSinkStack()
    st.Push(term, rid)
    gevent.spawn(pool.AsyncProcessRequest, st, msg, None, {})
  vloop.run_ready()
  if len(order) - n0 != mx:
    viol.append('after the burst drained, %d new requests got %d connections: capacity leaked' % (mx, len(order) - n0))
  return {'n': total, 'viol': [{'clause': 'C07.burst', 'message': 'max=%d, %d queued requests answered synchronously: %s' % (mx, n_waiters, m),
                                'sig': {'waiters': n_waiters}} for m in viol[:1]]}


def main(tier, seed):
  rep = Report(PROP, tier, seed, 'model_checking')
  pool = bfs.make_pool()
  try:
    from .. import explore
    sizes = [(n, mx) for n in ((1, 2, 5, 20, 150, 1200) if tier == 'quick' else (1, 2, 3, 5, 10, 20, 50, 150, 400, 1200, 5000)) for mx in (1, 2)]
    outs = explore.pmap('vt.checks.c07', 'burst', sizes, pool, seed)
    for o in outs:
      rep.add_violations(o['viol'])
    rep.part('bursts of queued requests answered synchronously', engine='E (scale)', sizes=sizes, requests=sum(o['n'] for o in outs))
    for name, params, depth in configs(tier):
      res = bfs.run_bfs('vt.poolharness', 'expand', params, depth, pool, seed=seed, stop_on_violation=False)
      rep.add_bfs(name, res, depth, params=params, replay_base={'params': params})
  finally:
    pool.close()
    pool.join()
  rep.assumptions += [
    'a connection that dies while carrying a request fails that request itself (what the transports do, C08)',
    'a request that already holds a connection times out through that connection\'s own response; Timeout is applied to queued requests only',
    'entries of timed-out waiters not yet skipped may or may not count toward max_queue_len (the statement leaves it open)']
  return rep.finish(
    rule='BFS over histories of request / completion / queued-timeout / connection-death / open-outcome operations on the real '
         'WatermarkPoolSink for each (min, max, queue) configuration; states distinct by pool state, size, cache, waiter list, '
         'per-connection and per-request status; every transition is an implementation run checked against the reference model, '
         'and every idle state is probed with a burst of max requests', exhaustive=True)


def replay(path):
  import json
  from .. import world
  world.boot()
  v = json.load(open(path))
  rp = v['replay']
  for line in poolharness.describe(rp['params'], rp['history']):
    print(line)
  return 0
