"""C10 - timer queue runs each action once, never early, in deadline order.

Engine B over the real scales.timer_queue.TimerQueue on the virtual clock.
Operations (a history is a list of them):
  ['S', k, j]  Schedule an action at now + DT[k]
  ['X', i, j]  cancel the i-th scheduled action
  ['T']        let the earliest loop timer fire (virtual time jumps to it), run to quiescence
  ['A', m]     advance the clock by ADV[m], firing due loop timers on the way
  ['J', m]     the clock jumps ahead by JUMP[m] in one step (the process was busy or stopped: sleepers whose wake-up time was
               passed on the way all wake up late, at the new time); the clock "reaches" every time in between at the new time
j is the preemption mode of S/X: 0 = run the loop to quiescence afterwards, j>0 = run only j-1 ready
callbacks afterwards, so the *next* operation lands between two ready callbacks - e.g. inside the
worker's clear -> sleep(0) -> peek -> wait window.  At most `max_preempt` preempting operations
per history.  From every state reached, the harness additionally runs the clock to the horizon with
no further scheduling activity and checks the terminal oracle.
"""
import math

from .. import bfs, vloop, world
from ..report import Report

PROP = 'C10'
EPS = 1e-6


class St(object):
  def __init__(self, params):
    import scales.timer_queue as tq
    self.lp = vloop.loop()
    self.res = params['res']
    self.scale = params['res'] / 0.01
    self.dts = [d * self.scale for d in params['dts']]
    self.advs = [d * self.scale for d in params['advs']]
    self.jump_by = [d * self.scale for d in params.get('jumps', [])]
    self.jumped = []    # (from, to): intervals the clock skipped in one step
    self.horizon = vloop.EPOCH + params.get('horizon', 0.2) * self.scale
    # the module-level queues (1 s low-resolution clock tick) are not under test here: cancel what they hold so that
    # long clock advances do not have to step through thousands of their ticks
    for gq in (tq.GLOBAL_TIMER_QUEUE, tq.LOW_RESOLUTION_TIMER_QUEUE):
      for e in gq._queue:
        e[2] = True
        e[3] = None
    self.q = world.track_timer_queue(tq.TimerQueue(time_source=self.lp.now, resolution=self.res))
    vloop.run_ready()
    self.acts = []      # dicts: D, tick, t_sched, ev_sched, cancel, cancelled_at, runs
    self.ev = 0         # global event counter (orders schedules, cancels, runs)
    self.preempts = 0
    self.params = params
    self.viol = []

  def tick_up(self, d):
    return math.ceil(d / self.res - 1e-7) * self.res

  def _mk_action(self, idx):
    def action():
      self.ev += 1
      self.acts[idx]['runs'].append((self.lp.now(), self.ev))
    if idx % 2 == 1:
      # every second action is a callable without function attributes (as functools.partial objects and bound
      # callables are): an action is "something callable", nothing more
      import functools
      return functools.partial(action)
    return action

  def apply(self, op):
    kind = op[0]
    lp = self.lp
    if kind == 'S':
      d = lp.now() + self.dts[op[1]]
      idx = len(self.acts)
      self.ev += 1
      # actions the worker has already taken off the queue and handed to gevent.spawn (their rounded deadline was
      # reached) but whose greenlet has not started yet: the new action cannot be ordered before those
      inq = set(e[1] for e in self.q._queue)
      started = set(a['seq'] for a in self.acts
                    if not a['runs'] and a['qseq'] not in inq and lp.now() >= a['tick'] - EPS)
      self.acts.append({'D': d, 'tick': self.tick_up(d), 't_sched': lp.now(), 'ev_sched': self.ev,
                        'cancel': None, 'cancelled_at': None, 'runs': [], 'seq': idx, 'started_before': started,
                        'qseq': self.q._seq + 1})
      self.acts[idx]['cancel'] = self.q.Schedule(d, self._mk_action(idx))
      self._run(op[2])
    elif kind == 'X':
      a = self.acts[op[1]]
      self.ev += 1
      a['cancelled_at'] = (lp.now(), self.ev, len(a['runs']))
      a['cancel']()
      self._run(op[2])
    elif kind == 'T':
      t = lp.next_timer()
      lp.fire(t)
      vloop.run_ready()
    elif kind == 'A':
      self._advance(lp.now() + self.advs[op[1]])
    elif kind == 'J':
      target = lp.now() + self.jump_by[op[1]]
      self.jumped.append((lp.now(), target))
      lp.advance_to(target)
      self._advance(target)          # every sleeper that is overdue now wakes up, at the new time
    else:
      raise ValueError(op)

  def _run(self, j):
    if j == 0:
      vloop.run_ready()
    else:
      self.preempts += 1
      vloop.run_ready(budget=j - 1)

  def _advance(self, target):
    lp = self.lp
    while True:
      vloop.run_ready()
      t = lp.next_timer()
      if t is None or t.at > target + 1e-12:
        break
      lp.fire(t)
    lp.advance_to(target)

  def enabled(self):
    ops = []
    lp = self.lp
    p = self.params
    quiescent = lp.quiescent()
    modes = [0]
    if self.preempts < p['max_preempt']:
      modes += list(range(1, p['preempt_depth'] + 1))
    kinds = p.get('kinds', 'SXTA')
    if len(self.acts) < p['max_actions']:
      for k in range(len(self.dts)):
        if lp.now() + self.dts[k] > self.horizon - 2 * self.res:
          continue          # its deadline would lie beyond the horizon the terminal oracle runs to
        for j in modes:
          ops.append(['S', k, j])
    for i, a in enumerate(self.acts):
      if a['cancelled_at'] is None and 'X' in kinds:
        for j in modes:
          ops.append(['X', i, j])
    if quiescent:
      t = lp.next_timer()
      if t is not None and t.at <= self.horizon and 'T' in kinds:
        ops.append(['T'])
      for m in range(len(self.advs)):
        if lp.now() + self.advs[m] <= self.horizon:
          ops.append(['A', m])
      for m in range(len(self.jump_by)):
        if lp.now() + self.jump_by[m] <= self.horizon:
          ops.append(['J', m])
    return ops

  def reached(self, t):
    """The time at which the clock first showed a value >= t."""
    for lo, hi in self.jumped:
      if lo < t - EPS and t < hi:
        return hi
    return t

  # ---- oracle --------------------------------------------------------------------------------
  def check_safety(self):
    v = []
    for i, a in enumerate(self.acts):
      if len(a['runs']) > 1:
        v.append(self._v('C10.ran-twice', 'action %d ran %d times' % (i, len(a['runs'])), i))
      for (t, ev) in a['runs']:
        if t < a['D'] - EPS:
          v.append(self._v('C10.ran-early', 'action %d with deadline %.4f ran at %.4f'
                           % (i, a['D'] - vloop.EPOCH, t - vloop.EPOCH), i))
      c = a['cancelled_at']
      if c is not None and c[0] < a['tick'] - EPS and len(a['runs']) > c[2]:
        v.append(self._v('C10.cancelled-ran', 'action %d cancelled at %.4f before its rounded deadline %.4f ran anyway'
                         % (i, c[0] - vloop.EPOCH, a['tick'] - vloop.EPOCH), i))
    # order: for two actions that were pending together, (tick, seq) order == run order
    ran = [a for a in self.acts if a['runs']]
    for a in ran:
      for b in ran:
        if a is b:
          continue
        ka, kb = (round(a['tick'] / self.res), a['seq']), (round(b['tick'] / self.res), b['seq'])
        if ka < kb:
          ra, rb = a['runs'][0][1], b['runs'][0][1]
          together = a['ev_sched'] < rb and b['ev_sched'] < ra and b['seq'] not in a['started_before']
          if together and ra > rb:
            v.append(self._v('C10.order', 'action %d (tick %.4f) ran after action %d (tick %.4f)'
                             % (a['seq'], a['tick'] - vloop.EPOCH, b['seq'], b['tick'] - vloop.EPOCH), a['seq']))
    return v

  def check_terminal(self):
    """Run to the horizon with no further scheduling activity, then liveness + safety."""
    self._advance(self.horizon)
    vloop.run_ready()
    v = self.check_safety()
    for i, a in enumerate(self.acts):
      if a['cancelled_at'] is not None:
        continue
      if not a['runs']:
        v.append(self._v('C10.never-ran', 'action %d (deadline %.4f) never ran by the horizon'
                         % (i, a['D'] - vloop.EPOCH), i))
        continue
      due = self.reached(max(a['t_sched'], a['tick']))
      if a['runs'][0][0] > due + EPS:
        v.append(self._v('C10.ran-late', 'action %d due at %.4f ran at %.4f'
                         % (i, due - vloop.EPOCH, a['runs'][0][0] - vloop.EPOCH), i))
    if self.lp.errors:
      v.append(self._v('C10.worker-error', 'exception in timer machinery: %s' % (self.lp.errors[0][1:3],), -1))
    return v

  def _v(self, clause, msg, idx):
    return {'clause': clause, 'message': msg, 'sig': {'res': self.res}}

  def key(self):
    lp = self.lp
    now = lp.now()
    q = tuple(sorted((round((e[0] - vloop.EPOCH) / self.res), e[1], bool(e[2])) for e in self.q._queue))
    heap_order = tuple(e[1] for e in self.q._queue)
    timers = tuple((round(at - now, 7)) for (at, seq, tm) in lp.active_timers() if at <= self.horizon + 1)
    ready = tuple(getattr(cb.callback, '__qualname__', None) or type(cb.callback).__name__
                  for cb in lp._ready if cb.callback is not None)
    w = self.q._worker
    fr = getattr(w, 'gr_frame', None)
    pos = fr.f_lineno if fr is not None else -1
    acts = tuple((round((a['D'] - vloop.EPOCH) / self.res * 4), a['cancelled_at'] is not None,
                  tuple(round((t - vloop.EPOCH) / self.res * 4) for (t, ev) in a['runs']),
                  tuple(ev for (t, ev) in a['runs']), a['ev_sched']) for a in self.acts)
    return repr((round((now - vloop.EPOCH) / self.res * 4), q, heap_order, self.q._event.is_set(), timers, ready, pos,
                 acts, self.preempts))


def build(params, hist):
  world.reset()
  st = St(params)
  for op in hist:
    st.apply(op)
  return st


def expand(params, hist):
  st = build(params, hist)
  out = {'key': st.key(), 'children': [], 'violations': [], 'builds': 1}
  ops = st.enabled()
  for op in ops:
    s2 = build(params, hist + [op])
    out['builds'] += 1
    v = s2.check_safety()
    k = s2.key()
    v = v + s2.check_terminal()
    seen = set()
    vv = []
    for x in v:
      if x['clause'] not in seen:
        seen.add(x['clause'])
        vv.append(x)
    out['children'].append({'op': op, 'key': k, 'violations': vv, 'terminal': bool(vv)})
  return out


CONFIGS = {
  'quick': [
    ({'res': 0.01, 'dts': [-0.0125, 0.0025, 0.0125, 0.0275], 'advs': [0.005, 0.02],
      'max_actions': 3, 'max_preempt': 2, 'preempt_depth': 3}, 6),
    ({'res': 1, 'dts': [-0.0125, 0.0025, 0.0125], 'advs': [0.005],
      'max_actions': 3, 'max_preempt': 1, 'preempt_depth': 2}, 5),
    # deadlines minutes and hours ahead of the clock (the worker sleeps for a long time)
    ({'res': 0.01, 'dts': [3.5025, 400.0025, 4000.0025], 'advs': [350.0, 100.0], 'horizon': 4500.0,
      'max_actions': 3, 'max_preempt': 0, 'preempt_depth': 1}, 5),
    # several overdue deadlines (different past ticks) scheduled in the same instant, after earlier actions have run
    ({'res': 0.01, 'dts': [-0.0325, -0.0225, -0.0125, 0.0125], 'advs': [0.02],
      'max_actions': 4, 'max_preempt': 2, 'preempt_depth': 1}, 6),
    # deadlines exactly on a tick (2.0 s at a resolution of 1 s: exact in binary floating point), a hair past a tick (2.0004 s), 3.25 s overdue
    ({'res': 1, 'dts': [0.02, 0.020004, 0.0125, 0.0, -0.0325], 'advs': [0.005, 0.02],
      'max_actions': 3, 'max_preempt': 1, 'preempt_depth': 2}, 5),
    # many pending actions scheduled in every order of five deadlines (the queue's heap gets several levels deep)
    ({'res': 0.01, 'dts': [0.0025, 0.0125, 0.0225, 0.0325, 0.0425], 'advs': [], 'kinds': 'S',
      'max_actions': 7, 'max_preempt': 0, 'preempt_depth': 1}, 7),
    # the clock jumps past one or several deadlines in one step (wake-ups observed late)
    ({'res': 0.01, 'dts': [0.0025, 0.0125, 0.0325], 'advs': [0.005], 'jumps': [0.015, 0.04],
      'max_actions': 3, 'max_preempt': 1, 'preempt_depth': 2}, 6),
  ],
  'thorough': [
    ({'res': 0.01, 'dts': [-0.0125, 0.0025, 0.0125, 0.0325], 'advs': [0.005], 'jumps': [0.015, 0.04],
      'max_actions': 4, 'max_preempt': 2, 'preempt_depth': 2}, 7),
    ({'res': 0.01, 'dts': [-0.0125, 0.0025, 0.0125, 0.0275], 'advs': [0.005, 0.02],
      'max_actions': 4, 'max_preempt': 2, 'preempt_depth': 3}, 7),
    ({'res': 1, 'dts': [-0.0125, 0.0025, 0.0125, 0.0275], 'advs': [0.005, 0.02],
      'max_actions': 3, 'max_preempt': 2, 'preempt_depth': 3}, 6),
    ({'res': 0.01, 'dts': [3.5025, 400.0025, 4000.0025], 'advs': [350.0, 100.0], 'horizon': 4500.0,
      'max_actions': 3, 'max_preempt': 1, 'preempt_depth': 1}, 7),
    ({'res': 0.01, 'dts': [-0.0325, -0.0225, -0.0125, 0.0125], 'advs': [0.02],
      'max_actions': 4, 'max_preempt': 2, 'preempt_depth': 2}, 7),
    ({'res': 0.01, 'dts': [0.0025, 0.0125, 0.0225, 0.0325, 0.0425, 0.0525], 'advs': [0.03], 'kinds': 'SA',
      'max_actions': 8, 'max_preempt': 0, 'preempt_depth': 1}, 8),
  ],
}


def scale(n, blocking):
  """Scale: n actions with distinct deadlines; when `blocking`, every action blocks for ever once started (an action is free to
  take as long as it likes; the queue must still start every later one on time)."""
  import gevent.event
  world.reset()
  st = St({'res': 0.01, 'dts': [], 'advs': [], 'max_actions': n, 'max_preempt': 0, 'preempt_depth': 1, 'horizon': 0.01 * n + 1})
  never = gevent.event.Event()
  starts = {}
  lp = st.lp

  def mk(i):
    def action():
      starts.setdefault(i, []).append(lp.now())
      if blocking:
        never.wait()
    return action
  t0 = lp.now()
  due = {}
  for i in range(n):
    d = t0 + 0.0025 + 0.01 * i
    due[i] = st.tick_up(d)
    st.q.Schedule(d, mk(i))
  vloop.run_ready()
  st._advance(st.horizon)
  vloop.run_ready()
  viol = []
  for i in range(n):
    got = starts.get(i, [])
    if len(got) != 1 or abs(got[0] - due[i]) > EPS:
      viol.append({'clause': 'C10.never-ran' if not got else 'C10.ran-late',
                   'message': '%d actions with deadlines 10 ms apart%s: action %d (due +%.4f) started at %r'
                   % (n, ', every action blocks once started' if blocking else '', i, due[i] - vloop.EPOCH,
                      [round(t - vloop.EPOCH, 4) for t in got]), 'sig': {'res': 0.01}})
      break
  return {'n': n, 'viol': viol}


def main(tier, seed):
  rep = Report(PROP, tier, seed, 'model_checking')
  pool = bfs.make_pool()
  try:
    from .. import explore
    sizes = [(n, b) for n in ((10, 100, 300) if tier == 'quick' else (10, 33, 65, 100, 129, 300, 1025, 3000)) for b in (False, True)]
    for o in explore.pmap('vt.checks.c10', 'scale', sizes, pool, seed):
      rep.add_violations(o['viol'])
    rep.part('many actions, optionally blocking for ever once started', engine='E (scale)', sizes=sizes)
    for params, depth in CONFIGS[tier]:
      res = bfs.run_bfs('vt.checks.c10', 'expand', params, depth, pool, seed=seed)
      rep.add_bfs('timerqueue res=%s' % params['res'], res, depth, params=params,
                  replay_base={'params': params})
  finally:
    pool.close()
    pool.join()
  rep.assumptions += [
    'one virtual clock: TimerQueue time source, gevent loop time and timer expiry agree exactly',
    'deadlines are off-tick (x.xx25 offsets), plus - at the 1 s resolution, where the values are exact in binary floating point - '
    'deadlines exactly on a tick and 0.4 ms past a tick; on-tick deadlines at the 10 ms resolution are outside the alphabet '
    '(whether d/0.01 is integral there is an accident of floating point)',
    'loop timers fire only when the ready-callback queue is empty; preemption = an operation issued between two ready callbacks',
  ]
  return rep.finish(
    rule='BFS over histories of Schedule/cancel/timer-fire/advance operations on the real TimerQueue; '
         'a state is distinct by (clock, queue entries, heap order, event flag, loop timers, ready callbacks, '
         'worker line, per-action run log); every transition is an implementation run, and from every state the '
         'clock is additionally run to the horizon to check exactly-once / not-early / on-time / order',
    exhaustive=True)


def replay(path):
  import json
  v = json.load(open(path))
  rp = v['replay']
  world.boot()
  st = build(rp['params'], rp['history'][:-1])
  print('state before last op:', st.key())
  st = build(rp['params'], rp['history'])
  vs = st.check_safety() + st.check_terminal()
  for a in st.acts:
    print(a['seq'], 'D=%.4f tick=%.4f sched@%.4f cancelled=%s runs=%s' % (
      a['D'] - vloop.EPOCH, a['tick'] - vloop.EPOCH, a['t_sched'] - vloop.EPOCH, a['cancelled_at'],
      [(round(t - vloop.EPOCH, 4), e) for t, e in a['runs']]))
  for x in vs:
    print('VIOLATION-DETAIL', x['clause'], x['message'])
  return 1 if vs else 0
