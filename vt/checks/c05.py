"""C05 - balancer membership equals the server set after any join/leave history.  (Engine B, vt/lbharness.py)"""
from .c03 import run, RULE, ASSUME
from .. import lbharness  # noqa

PROP = 'C05'
CLAUSE_PREFIXES = ('C05.', 'LB.')

NOTIF = ['D', 'C', 'Join', 'Leave']
CONFIGS = {
  'quick': [
    ('heap 3 endpoints dup/unknown notifications', {'kind': 'heap', 'n': 2, 'extra': 1, 'ops': NOTIF, 'dup_ops': True,
                                                    'max_out': 2, 'probe': True}, 8),
    ('aperture 3 endpoints dup/unknown notifications', {'kind': 'aperture', 'n': 2, 'extra': 1, 'min_size': 1, 'ops': NOTIF + ['Adv'],
                                                        'advs': [3], 'dup_ops': True, 'max_out': 2}, 8),
    ('aperture 3 endpoints, members down/up, contraction and expansion over time',
     {'kind': 'aperture', 'n': 3, 'min_size': 1, 'ops': ['D', 'C', 'Down', 'Up', 'Adv', 'Leave', 'Join'], 'advs': [1, 3], 'max_out': 3,
      'max_down': 1, 'max_notifications': 1}, 7),
    ('aperture 4 endpoints, min_size = max_size = 2, members going down',
     {'kind': 'aperture', 'n': 4, 'min_size': 2, 'max_size': 2, 'ops': ['D', 'C', 'Down', 'Up', 'Adv', 'Leave'], 'advs': [1], 'max_out': 3,
      'max_down': 2, 'max_notifications': 1}, 6),
    ('heap 3 endpoints, closing a departing member\'s channel fails once', {'kind': 'heap', 'n': 3, 'ops': ['D', 'C', 'Join', 'Leave', 'LeaveX'],
                                                                            'max_out': 2, 'max_notifications': 4, 'probe': True}, 6),
    ('aperture 3 endpoints, closing a departing member\'s channel fails once', {'kind': 'aperture', 'n': 3, 'min_size': 2,
                                                                                'ops': ['D', 'C', 'Join', 'Leave', 'LeaveX'],
                                                                                'max_out': 2, 'max_notifications': 4}, 6),
    ('heap 3 endpoints, Open() called again after the balancer has opened', {'kind': 'heap', 'n': 2, 'extra': 1, 'ops': NOTIF + ['ReOpen'],
                                                                            'max_out': 2, 'max_notifications': 3, 'probe': True}, 6),
    ('aperture 3 endpoints, Open() called again after the balancer has opened', {'kind': 'aperture', 'n': 2, 'extra': 1, 'min_size': 1,
                                                                                'ops': NOTIF + ['ReOpen', 'Adv'], 'advs': [3], 'max_out': 2,
                                                                                'max_notifications': 3}, 6),
    ('heap, the first load of the member list fails with an Exception', {'kind': 'heap', 'n': 2, 'extra': 1, 'load_fails': 'exception',
                                                                        'ops': ['D', 'C', 'Adv', 'Join', 'Leave'], 'advs': [2], 'notifier': True,
                                                                        'max_out': 2, 'max_notifications': 2}, 5),
    ('aperture, the first load of the member list fails with a BaseException (gevent.Timeout)',
     {'kind': 'aperture', 'n': 2, 'extra': 1, 'min_size': 1, 'load_fails': 'base', 'ops': ['D', 'C', 'Adv', 'Join', 'Leave'], 'advs': [2],
      'notifier': True, 'max_out': 2, 'max_notifications': 2}, 5),
    ('heap 3 endpoints addressed by a named additional endpoint', {'kind': 'heap', 'n': 2, 'extra': 1, 'ops': NOTIF, 'dup_ops': True,
                                                                   'endpoint_name': 'thrift', 'max_out': 2, 'probe': True}, 6),
    ('heap opened with an empty server set', {'kind': 'heap', 'n': 0, 'extra': 2, 'ops': NOTIF, 'dup_ops': True, 'max_out': 2, 'probe': True,
                                              'max_notifications': 4}, 6),
    ('aperture opened with an empty server set', {'kind': 'aperture', 'n': 0, 'extra': 2, 'min_size': 1, 'ops': NOTIF, 'dup_ops': True, 'max_out': 2,
                                                  'max_notifications': 4}, 6),
    ('heap notifications during loading', {'kind': 'heap', 'n': 2, 'extra': 1, 'ops': ['Join', 'Leave', 'Gate', 'D', 'C'],
                                           'gate': True, 'notifier': True, 'dup_ops': True, 'max_notifications': 4,
                                           'max_out': 2, 'probe': True}, 8),
    ('aperture notifications during loading', {'kind': 'aperture', 'n': 2, 'extra': 1, 'min_size': 1,
                                               'ops': ['Join', 'Leave', 'Gate', 'D', 'C'],
                                               'gate': True, 'notifier': True, 'dup_ops': True, 'max_notifications': 4,
                                               'max_out': 2}, 8),
  ],
  'thorough': [
    ('heap 4 endpoints dup/unknown notifications', {'kind': 'heap', 'n': 2, 'extra': 2, 'ops': NOTIF + ['Down', 'Up'], 'dup_ops': True,
                                                    'max_out': 3, 'max_down': 1, 'probe': True}, 8),
    ('aperture 4 endpoints dup/unknown notifications', {'kind': 'aperture', 'n': 2, 'extra': 2, 'min_size': 2, 'max_size': 3,
                                                        'ops': NOTIF + ['Adv', 'Down', 'Up'], 'advs': [3], 'dup_ops': True,
                                                        'max_out': 3, 'max_down': 1}, 8),
    ('heap notifications during loading', {'kind': 'heap', 'n': 2, 'extra': 2, 'ops': ['Join', 'Leave', 'Gate', 'D', 'C'],
                                           'gate': True, 'notifier': True, 'dup_ops': True, 'max_notifications': 4,
                                           'max_out': 2, 'probe': True}, 8),
    ('aperture notifications during loading', {'kind': 'aperture', 'n': 3, 'extra': 1, 'min_size': 2,
                                               'ops': ['Join', 'Leave', 'Gate', 'D', 'C'],
                                               'gate': True, 'notifier': True, 'dup_ops': True, 'max_notifications': 4,
                                               'max_out': 2}, 8),
  ],
}


# thorough = its own larger configurations plus every quick configuration one level deeper
CONFIGS['thorough'] = CONFIGS['thorough'] + [(name + ' [quick configuration, one level deeper]', params, depth + 1)
                                             for (name, params, depth) in CONFIGS['quick']]


def main(tier, seed):
  return run(PROP, CLAUSE_PREFIXES, CONFIGS, tier, seed, RULE, ASSUME + [
    'GetServers() returns the initial snapshot; notifications issued while it blocks are logically later and are '
    'delivered serially by one notifier greenlet'])


def replay(path):
  from . import c03
  return c03.replay(path)
