"""C19 - ZooKeeper server set reports exactly the membership changes that occurred.  (Engine S)

The real scales ServerSet runs on the *real* kazoo DataWatch / ChildrenWatch recipes over FakeKazoo, a
KazooClient subclass (gevent handler, never started) with an in-memory znode tree, mzxid stamps and
ZooKeeper's one-shot watches.  The server->client channel is one FIFO (ZooKeeper's ordering guarantee:
responses and watch events arrive in the order the server produced them); a read is processed by the
server when the scheduler picks it, and watch callbacks run sequentially on one callback greenlet, as
kazoo's handler does.  Default schedule: every request is processed and every channel item delivered
before the next tree mutation; deviations: a mutation happens first.
"""
import json

from .. import explore, vloop, world
from ..report import Report

PROP = 'C19'
PARENT = '/svc'


def member_data(name, gen=0):
  # member_1N is the same service instance as member_N after a restart: a new node carrying the same data.
  # gen > 0 (scenarios with 'regen'): the name is being used again by another server - same node name, other host and port
  i = int(name.split('_')[-1]) % 10
  return json.dumps({'serviceEndpoint': {'host': 'host-member_%d%s' % (i, '-gen%d' % gen if gen else ''), 'port': 7000 + i + 100 * gen},
                     'additionalEndpoints': {}, 'status': 'ALIVE'}).encode('utf-8')


def make_client_class():
  from kazoo.client import KazooClient
  from kazoo.exceptions import NoNodeError
  from kazoo.handlers.gevent import SequentialGeventHandler
  from kazoo.protocol.states import ZnodeStat, WatchedEvent, EventType, KeeperState
  import gevent
  import gevent.queue

  class FakeKazoo(KazooClient):
    def __init__(self):
      KazooClient.__init__(self, hosts='127.0.0.1:2181', handler=SequentialGeventHandler())
      self.lp = vloop.loop()
      self.tree = {}             # path -> (data, mzxid)
      self.zxid = 0
      self.data_watches = {}     # path -> [fn]
      self.child_watches = {}    # path -> [fn]
      self.requests = []         # pending rpcs: dict(kind, path, watch, box, watcher)
      self.channel = []          # server -> client FIFO: ('resp', req) | ('event', fn, WatchedEvent)
      self.cbq = gevent.queue.Queue()
      self.cb_errors = []
      self.cb_busy = False
      self.worker = gevent.spawn(self._cb_worker)
      self.nreq = 0

    @property
    def connected(self):
      return True

    def start(self, timeout=15):
      pass

    def stop(self):
      pass

    # ---- client calls: blocking rpcs ------------------------------------------------------------------
    def _rpc(self, kind, path, watch):
      self.nreq += 1
      req = {'kind': kind, 'path': path, 'watch': watch, 'box': {}, 'watcher': vloop.FakeWatcher(self.lp), 'id': self.nreq}
      self.requests.append(req)
      while 'done' not in req['box']:
        vloop.hub().wait(req['watcher'])
      if 'exc' in req['box']:
        raise req['box']['exc']
      return req['box']['value']

    def get(self, path, watch=None):
      return self._rpc('get', path, watch)

    def exists(self, path, watch=None):
      return self._rpc('exists', path, watch)

    def get_children(self, path, watch=None, include_data=False):
      return self._rpc('children', path, watch)

    # ---- server side ------------------------------------------------------------------------------------------
    def _stat(self, path):
      data, mz = self.tree[path]
      nchildren = len(self._children(path))
      return ZnodeStat(mz, mz, 0, 0, 0, 0, 0, 0, len(data), nchildren, mz)

    def _children(self, path):
      pre = path.rstrip('/') + '/'
      return sorted(p[len(pre):] for p in self.tree if p.startswith(pre) and '/' not in p[len(pre):])

    def process(self, req):
      """The server handles one request now: reads the tree, registers the watch, queues the response."""
      self.requests.remove(req)
      kind, path, watch = req['kind'], req['path'], req['watch']
      box = {}
      if kind == 'get':
        if path in self.tree:
          box['value'] = (self.tree[path][0], self._stat(path))
          if watch:
            self.data_watches.setdefault(path, []).append(watch)
        else:
          box['exc'] = NoNodeError()
      elif kind == 'exists':
        box['value'] = self._stat(path) if path in self.tree else None
        if watch:
          self.data_watches.setdefault(path, []).append(watch)
      else:
        if path in self.tree:
          box['value'] = self._children(path)
          if watch:
            self.child_watches.setdefault(path, []).append(watch)
        else:
          box['exc'] = NoNodeError()
      self.channel.append(('resp', req, box))

    def _fire(self, table, path, etype):
      for fn in table.pop(path, []):
        self.channel.append(('event', fn, WatchedEvent(etype, KeeperState.CONNECTED, path)))

    def create(self, path, data=b''):
      self.zxid += 1
      self.tree[path] = (data, self.zxid)
      self._fire(self.data_watches, path, EventType.CREATED)
      parent = path.rsplit('/', 1)[0] or '/'
      self._fire(self.child_watches, parent, EventType.CHILD)

    def delete(self, path):
      self.zxid += 1
      del self.tree[path]
      self._fire(self.data_watches, path, EventType.DELETED)
      self._fire(self.child_watches, path, EventType.DELETED)
      parent = path.rsplit('/', 1)[0] or '/'
      self._fire(self.child_watches, parent, EventType.CHILD)

    def deliver(self):
      item = self.channel.pop(0)
      if item[0] == 'resp':
        req, box = item[1], item[2]
        req['box'].update(box)
        req['box']['done'] = True
        req['watcher'].trigger()
      else:
        self.cbq.put((item[1], item[2]))

    def _cb_worker(self):
      while True:
        fn, ev = self.cbq.get()
        self.cb_busy = True
        try:
          fn(ev)
        except Exception as e:  # noqa
          self.cb_errors.append(repr(e))
        finally:
          self.cb_busy = False

  return FakeKazoo


class ZWorld(object):
  def __init__(self, params):
    import gevent
    from scales.loadbalancer.zookeeper import ServerSet
    self.p = params
    self.lp = vloop.loop()
    self.zk = make_client_class()()
    self.viol = []
    self.log = []             # ('join'|'leave', name) in delivery order
    self.view = {}            # consumer's view: name -> count
    self.vals = set()         # a consumer that identifies members by value (Member equality: endpoint, status, shard), as the balancers do
    self.script = [list(x) for x in params['script']]
    self.raise_on = set(params.get('raise_on', ()))
    self.ncb = 0
    self.reader_results = []
    self.loaded = None
    if params.get('parent_exists', True):
      self.zk.tree[PARENT] = (b'', 0)
    for m in params.get('initial', ()):
      self.zk.zxid += 1
      self.zk.tree[PARENT + '/' + m] = (member_data(m), self.zk.zxid)
    self.ss = None

    self.created = dict((m, 1) for m in params.get('initial', ()))

    def mk():
      if params.get('via_provider'):
        # through the provider the balancers use (it creates the ServerSet itself)
        from scales.loadbalancer.serverset import ZooKeeperServerSetProvider
        self.prov = ZooKeeperServerSetProvider(self.zk, PARENT)
        self.prov.Initialize(self.on_join, self.on_leave)
        self.ss = self.prov._server_set
      else:
        self.ss = ServerSet(self.zk, PARENT, self.on_join, self.on_leave, lambda n: n.startswith('member_'))
    self.init_g = gevent.spawn(mk)

  def v(self, clause, msg, **sig):
    self.viol.append({'clause': clause, 'message': msg, 'sig': sig})

  def _cb(self, kind, member):
    self.ncb += 1
    name = member.name
    self.log.append((kind, name))
    if kind == 'join':
      self.vals.add(member)
    else:
      self.vals.discard(member)
    prev = [k for (k, n) in self.log[:-1] if n == name]
    if prev and prev[-1] == kind:
      self.v('C19.repeated', '%s reported for %s twice in a row; callback log %r' % (kind, name, self.log), kind=kind)
    if not prev and kind == 'leave':
      self.v('C19.repeated', 'leave reported for %s which was never reported as joining; callback log %r' % (name, self.log), kind=kind)
    if self.ncb in self.raise_on:
      raise RuntimeError('consumer callback %d failed' % self.ncb)

  def on_join(self, member):
    self._cb('join', member)

  def on_leave(self, member):
    self._cb('leave', member)

  # ---- alternatives ---------------------------------------------------------------------------------------------
  def alternatives(self):
    zk = self.zk
    alts = []
    for req in list(zk.requests):
      alts.append(('server-handles %s#%d %s' % (req['kind'], req['id'], req['path']), lambda req=req: zk.process(req)))
    if zk.channel:
      it = zk.channel[0]
      lab = ('deliver response #%d' % it[1]['id']) if it[0] == 'resp' else ('deliver watch-event %s %s' % (it[2].type, it[2].path))
      alts.append((lab, zk.deliver))
    if self.script and self._enabled(self.script[0]):
      op = self.script[0]
      alts.append(('zk %s' % ' '.join(map(str, op)), self._mutate))
    return alts

  def _enabled(self, op):
    t = self.zk.tree
    if op[0] == 'create':
      return PARENT in t and (PARENT + '/' + op[1]) not in t
    if op[0] == 'delete':
      return (PARENT + '/' + op[1]) in t
    if op[0] == 'delete_parent':
      return PARENT in t and not self.zk._children(PARENT)
    if op[0] == 'create_parent':
      return PARENT not in t
    if op[0] in ('read', 'iter1'):
      return self.ss is not None
    if op[0] == 'load':
      # (taken once the server set has announced everything that is there: the composition "snapshot, then notifications" has a window
      # of its own - a member the snapshot saw and the notification worker never got to read - which C19 does not speak about)
      return self.ss is not None and not self.zk.requests and not self.zk.channel
    if op[0] == 'wait_loaded':
      return self.loaded is not None
    return True

  def _mutate(self):
    import gevent
    op = self.script.pop(0)
    zk = self.zk
    if op[0] == 'create':
      gen = self.created.get(op[1], 0) if self.p.get('regen') else 0
      self.created[op[1]] = self.created.get(op[1], 0) + 1
      zk.create(PARENT + '/' + op[1], member_data(op[1], gen))
    elif op[0] == 'delete':
      zk.delete(PARENT + '/' + op[1])
    elif op[0] == 'delete_parent':
      zk.delete(PARENT)
    elif op[0] == 'create_parent':
      zk.create(PARENT, b'')
    elif op[0] == 'load':
      # what a balancer does: it takes GetServers() as its member list; joins and leaves then edit that list
      def ld():
        self.loaded = sorted(m.name for m in self.prov.GetServers())
      gevent.spawn(ld)
    elif op[0] == 'wait_loaded':
      pass
    elif op[0] == 'iter1':
      # a consumer starts iterating over the server set, takes one member and keeps the (unfinished) iterator around
      def it1():
        it = iter(self.ss)
        self.kept_iterators = getattr(self, 'kept_iterators', []) + [it]
        next(it, None)
      gevent.spawn(it1)
    elif op[0] == 'read':
      def rd():
        present_before = set(zk._children(PARENT)) if PARENT in zk.tree else set()
        got = self.ss.get_members()
        self.reader_results.append((sorted(m.name for m in got), sorted(present_before)))
      gevent.spawn(rd)

  def finish(self):
    present = sorted(n for n in self.zk._children(PARENT) if n.startswith('member_')) if PARENT in self.zk.tree else []
    view = {}
    for kind, name in self.log:
      view[name] = view.get(name, 0) + (1 if kind == 'join' else -1)
    holding = sorted(n for n, c in view.items() if c > 0)
    if self.script:
      return     # the script could not finish (an operation never became enabled): nothing to compare
    if holding != present:
      self.v('C19.view', 'after all events were delivered the consumer holds %r but the members present are %r; callback log %r'
             % (holding, present, self.log), missing=sorted(set(present) - set(holding)), extra=sorted(set(holding) - set(present)))
    if self.loaded is not None:
      held = set(self.loaded)
      for kind, name in self.log:
        if kind == 'join':
          held.add(name)
        else:
          held.discard(name)
      if sorted(held) != present:
        self.v('C19.view-after-load', 'a consumer that took GetServers() %r as its initial list and applied the callbacks %r holds %r, the members '
               'present are %r (all children of the path: %r)' % (self.loaded, self.log, sorted(held), present, sorted(self.zk._children(PARENT))))
    from scales.loadbalancer.zookeeper import Member
    present_vals = set(Member.from_node(n, self.zk.tree[PARENT + '/' + n][0]) for n in present)
    if holding == present and self.vals != present_vals:
      self.v('C19.view-by-value', 'after all events were delivered a consumer that identifies members by value holds endpoints %r but the '
             'members present have endpoints %r; callback log %r'
             % (sorted(str(m.service_endpoint) for m in self.vals), sorted(str(m.service_endpoint) for m in present_vals), self.log))
    if self.zk.cb_errors:
      self.v('C19.exception-escaped', 'an exception escaped into the watch machinery: %s' % self.zk.cb_errors[0])
    errs = [e for e in self.lp.errors if 'GreenletExit' not in e[1]]
    if errs and not self.zk.cb_errors:
      self.v('C19.exception-escaped', 'a server-set greenlet died: %s: %s' % (errs[0][1], errs[0][2]))

  def outcome(self):
    return ' '.join('%s:%s' % x for x in self.log) + ' | ' + ','.join(sorted(self.zk.tree))


def run_exec(params, prefix, expect):
  world.reset()
  ch = world.Chooser(prefix, expect)
  w = ZWorld(params)
  world.set_chooser(ch)
  trace = []
  steps = 0
  try:
    while steps < 600:
      vloop.run_ready()
      alts = w.alternatives()
      if not alts:
        break
      i = 0 if len(alts) == 1 else ch.choose([a[0] for a in alts], 'env')
      trace.append(alts[i][0])
      alts[i][1]()
      steps += 1
    vloop.run_ready()
    w.finish()
  finally:
    world.set_chooser(None)
  seen = set()
  viol = []
  for v in w.viol:
    if v['clause'] not in seen:
      seen.add(v['clause'])
      v = dict(v)
      v['replay'] = {'params': params, 'choices': ch.choices, 'trace': trace}
      viol.append(v)
  return {'points': [(p.labels, p.chosen, p.costs) for p in ch.points], 'violations': viol, 'outcome': w.outcome(), 'trace': trace}


M0, M1, M2 = 'member_0', 'member_1', 'member_2'
M10 = 'member_10'


def scenarios(tier):
  out = [
    ('children created and deleted', {'script': [['create', M0], ['create', M1], ['delete', M0], ['create', M2], ['delete', M1], ['delete', M2]]}),
    ('path deleted and re-created, member re-uses a name',
     {'script': [['create', M0], ['create', M1], ['delete', M0], ['delete', M1], ['delete_parent'], ['create_parent'], ['create', M0]]}),
    ('path missing at start, created later', {'parent_exists': False, 'script': [['create_parent'], ['create', M0], ['create', M1], ['delete', M0]]}),
    ('members present at start, path deleted', {'initial': [M0, M1], 'script': [['delete', M0], ['delete', M1], ['delete_parent'], ['create_parent'], ['create', M1]]}),
    ('consumer callbacks raise', {'script': [['create', M0], ['create', M1], ['delete', M0], ['create', M2]], 'raise_on': [1, 3]}),
    ('path deleted while members are cached, a leave callback raises',
     {'initial': [M0, M1], 'script': [['delete', M0], ['delete', M1], ['delete_parent']], 'raise_on': [3]}),
    ('path deleted while 3 members are cached, leave callbacks raise',
     {'initial': [M0, M1, M2], 'script': [['delete', M0], ['delete', M1], ['delete', M2], ['delete_parent'], ['create_parent'], ['create', M1]],
      'raise_on': [4, 5]}),
    ('a listed member vanishes before it is read, then the path is deleted and re-created with the same member name',
     {'script': [['create', M0], ['delete', M0], ['delete_parent'], ['create_parent'], ['create', M0]], '_bound': 4}),
    ('a member is deleted while a second reader is between listing and reading it',
     {'initial': [M0, M1], 'script': [['read'], ['delete', M0], ['create', M2], ['read'], ['delete', M1]]}),
    ('a member restarts: its node is deleted and a new node with the same data appears',
     {'initial': [M0, M1], 'script': [['delete', M0], ['create', M10], ['delete', M1], ['create', M2]]}),
    ('through ZooKeeperServerSetProvider; node names are used again by other servers (other host and port)',
     {'via_provider': True, 'regen': True, 'initial': [M0], 'script': [['create', M1], ['delete', M0], ['create', M0], ['delete', M1], ['delete', M0],
                                                                     ['delete_parent'], ['create_parent'], ['create', M0]]}),
    ('a consumer keeps a partly consumed iterator over the server set',
     {'initial': [M0, M1], 'script': [['iter1'], ['create', M2], ['delete', M0], ['create', M0], ['delete', M1]]}),
    ('a member goes away and comes back under the same name (it may vanish before it was read, and be back before the next listing)',
     {'script': [['create', M1], ['create', M0], ['delete', M0], ['create', M0], ['delete', M1]]}),
    ('through ZooKeeperServerSetProvider, the consumer loads GetServers() first (as the balancers do); the path also has children that are not members',
     {'via_provider': True, 'initial': [M0, 'other_5', M1],
      'script': [['load'], ['wait_loaded'], ['create', 'other_6'], ['delete', M0], ['create', M2], ['delete', 'other_5'], ['delete', M1]]}),
    ('second reader lists members concurrently', {'initial': [M0], 'script': [['read'], ['create', M1], ['delete', M0], ['read'], ['create', M0]]}),
  ]
  if tier == 'thorough':
    out.append(('two delete/re-create cycles', {'script': [['create', M0], ['delete', M0], ['delete_parent'], ['create_parent'], ['create', M0], ['delete', M0],
                                                           ['delete_parent'], ['create_parent'], ['create', M0]]}))
  return out


def main(tier, seed):
  rep = Report(PROP, tier, seed, 'model_checking')
  pool = explore.make_pool()
  bound = 3 if tier == 'quick' else 4
  try:
    for name, params in scenarios(tier):
      b = max(bound, params.pop('_bound', 0))
      agg = explore.explore('vt.checks.c19', 'run_exec', params, b, seed=seed, pool=pool, split_levels=1 if b <= 2 else 2)
      rep.add_explore(name, agg, b, params=params)
  finally:
    pool.close()
    pool.join()
  rep.assumptions += ['kazoo below get/exists/get_children and session loss / reconnect are not modelled',
                      'server->client channel is FIFO (ZooKeeper ordering); watch callbacks run sequentially on one greenlet',
                      'member data is a function of the member name; member_10 carries the same data as member_0 (a restarted instance) and the '
                      'two are never present together']
  return rep.finish(
    rule='stateless exploration (<= d deviations) of the real ServerSet on the real kazoo watch recipes over an in-memory ZooKeeper: '
         'default = the server handles every read and every channel item is delivered before the next tree mutation; deviation = a '
         'mutation (or another pending item) first; distinct = distinct (callback log, final tree)', exhaustive=True)


def replay(path):
  import json as _json
  world.boot()
  v = _json.load(open(path))
  rp = v['replay']
  r = run_exec(rp['params'], rp['choices'], None)
  for i, t in enumerate(r['trace']):
    print('%3d %s' % (i, t))
  print('outcome:', r['outcome'])
  for x in r['violations']:
    print('VIOLATION-DETAIL', x['clause'], x['message'])
  return 1 if r['violations'] else 0
