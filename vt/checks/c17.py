"""C17 - async combinators resolve correctly for every completion order.

Engine E: the full product of (number of inputs, success/failure assignment, subset already complete
at call time, completion order of the rest) for WhenAll / WhenAny, of (nesting depth, failing level,
completion order of the levels incl. already-complete ones) for Unwrap, and of (source state,
continuation behaviour, on_hub) for ContinueWith / Map - each on the real
scales.asynchronous.AsyncResult under the real gevent on the virtual loop.  After *every* completion
step the loop is run to quiescence and (ready, value | exception) of the combined result is compared
with a small reference model, so a result that flips after it completed is caught in the step where
it flips.
"""
import itertools

from .. import vloop, world
from ..report import Report

PROP = 'C17'


class Err(Exception):
  def __init__(self, i):
    Exception.__init__(self, 'E%d' % i)
    self.i = i


class BaseErr(BaseException):
  """A failure that is not an Exception subclass (as gevent.Timeout and GreenletExit are)."""
  def __init__(self, i):
    BaseException.__init__(self, 'B%d' % i)
    self.i = i


ERRCLS = [Err]
FROMVALUE = [False]
MUTATE = [None]     # what the caller does to its input list right after the call: None, 'pop', 'append', 'clear'


def mkerr(i):
  return ERRCLS[0](i)


def iserr(x):
  return isinstance(x, (Err, BaseErr))


def snap(ar):
  if not ar.ready():
    return ('pending',)
  if ar.successful() and ar.exception is None:
    return ('ok', ar.value)
  if not ar.successful() and ar.exception is not None:
    return ('fail', ar.exception)
  # gevent lets a result be set twice: value *and* exception present.  get() then returns the value but every
  # consumer that tests .exception first (WhenAll, Map, Unwrap, the balancers) sees a failure.
  return ('both', ar.value, ar.exception)


def orders(n, outcomes, AsyncResult):
  """Yield (pre-complete subset, order of the rest)."""
  idx = list(range(n))
  for r in range(n + 1):
    for pre in itertools.combinations(idx, r):
      rest = [i for i in idx if i not in pre]
      for order in itertools.permutations(rest):
        yield pre, order


FALSY = [None, 0, '', (), False]
VALMODE = ['text']


def val(i):
  """Value of input i: a distinct string, or (second pass) a falsy value - None, 0, '', (), False are values too."""
  return 'v%d' % i if VALMODE[0] == 'text' else FALSY[i % len(FALSY)]


def complete(ar, i, ok):
  if ok:
    ar.set(val(i))
  else:
    ar.set_exception(mkerr(i))


def check_when(kind, n, rep, stats):
  from scales.asynchronous import AsyncResult
  for outcome in itertools.product([True, False], repeat=n):
    for pre, order in orders(n, outcome, AsyncResult):
      ars = [AsyncResult() for _ in range(n)]
      done = []     # completion order (pre-complete ones first, input order)
      for i in pre:
        if FROMVALUE[0] and outcome[i]:
          ars[i] = AsyncResult.FromValue(val(i))      # an already complete input made with the library's own helper
        else:
          complete(ars[i], i, outcome[i])
        done.append(i)
      vloop.run_ready()
      passed = list(ars)
      comb = (AsyncResult.WhenAll if kind == 'all' else AsyncResult.WhenAny)(passed)
      # the caller goes on using its list: what was passed at call time is what counts
      if MUTATE[0] == 'pop' and passed:
        passed.pop()
      elif MUTATE[0] == 'append':
        passed.append(AsyncResult())
      elif MUTATE[0] == 'clear':
        del passed[:]
      vloop.run_ready()
      steps = [None] + list(order)
      first_ok = None
      for s in steps:
        if s is not None:
          complete(ars[s], s, outcome[s])
          done.append(s)
          vloop.run_ready()
        stats['steps'] += 1
        got = snap(comb)
        case = {'combinator': 'When' + kind.capitalize(), 'n': n, 'outcomes': ['ok' if o else 'fail' for o in outcome], 'values': VALMODE[0],
                'caller_then_mutates_its_list': MUTATE[0],
                'already_complete': list(pre), 'completion_order': list(order), 'after_step': s}
        failed = [i for i in done if not outcome[i]]
        oks = [i for i in done if outcome[i]]
        if kind == 'all':
          if failed:
            good = got[0] == 'fail' and iserr(got[1]) and got[1].i in failed
            want = 'failed with one of the failures so far %s' % failed
          elif len(done) == n:
            good = got[0] == 'ok' and got[1] == [val(i) for i in range(n)] and all(type(a) is type(b) for a, b in zip(got[1], [val(i) for i in range(n)]))
            want = 'values in input order'
          else:
            good = got == ('pending',)
            want = 'pending'
        else:
          if oks:
            if first_ok is None:
              # first input(s) to succeed: the pre-complete successes count as simultaneous
              first_ok = [i for i in pre if outcome[i]] or [oks[0]]
            good = got[0] == 'ok' and any(got[1] == val(i) and type(got[1]) is type(val(i)) for i in first_ok)
            want = 'value of the first input to succeed %s' % first_ok
          elif len(done) == n:
            last = [pre[-1]] if not order else [order[-1]]      # (already-complete inputs were failed in input order: the last one failed last)
            good = got[0] == 'fail' and iserr(got[1]) and got[1].i in last
            want = 'failed with the last failure %s' % last
          else:
            good = got == ('pending',)
            want = 'pending (no input has succeeded, not all have failed)'
        stats['cases_keys'].add((kind, n, outcome, pre, order, s, got[0], VALMODE[0], ERRCLS[0].__name__, MUTATE[0], FROMVALUE[0]))
        if not good:
          clause = 'C17.when%s' % kind
          if kind == 'any' and oks and got[0] in ('fail', 'both') and s is not None:
            clause = 'C17.whenany-flip'
          elif kind == 'any' and got[0] == 'fail' and [i for i in pre if not outcome[i]]:
            clause = 'C17.whenany-precomplete-failure'
          sig = {'combinator': 'When' + kind.capitalize(),
                 'precomplete_failed': bool([i for i in pre if not outcome[i]]),
                 'flipped': bool(kind == 'any' and oks and got[0] == 'fail')}
          rep.violation(clause, 'When%s: expected %s, got %r; case %r' % (kind.capitalize(), want, got, case),
                        sig, {'case': case})
          break
      stats['cases'] += 1
      if len(stats['samples']) < 2 and n == 3 and pre and order:
        stats['samples'].append(case)


def check_repeated_inputs(nmax, rep, stats):
  """The same AsyncResult object at two or more input positions (a shared, cached result handed in several times)."""
  from scales.asynchronous import AsyncResult
  for n in range(2, nmax + 1):
    for k in range(1, n):                        # k distinct objects at n positions
      for m in itertools.product(range(k), repeat=n):
        if set(m) != set(range(k)) or list(m) != [x for x in m] or any(m.index(j) > m.index(j + 1) for j in range(k - 1)):
          continue                               # canonical: objects numbered in order of first appearance
        for kind in ('all', 'any'):
          for outcome in itertools.product([True, False], repeat=k):
            for pre, order in orders(k, outcome, AsyncResult):
              objs = [AsyncResult() for _ in range(k)]
              done = []
              for i in pre:
                complete(objs[i], i, outcome[i])
                done.append(i)
              vloop.run_ready()
              comb = (AsyncResult.WhenAll if kind == 'all' else AsyncResult.WhenAny)([objs[j] for j in m])
              vloop.run_ready()
              first_ok = None
              for s in [None] + list(order):
                if s is not None:
                  complete(objs[s], s, outcome[s])
                  done.append(s)
                  vloop.run_ready()
                stats['steps'] += 1
                got = snap(comb)
                failed = [i for i in done if not outcome[i]]
                oks = [i for i in done if outcome[i]]
                if kind == 'all':
                  if failed:
                    good = got[0] == 'fail' and iserr(got[1]) and got[1].i in failed
                    want = 'failed with one of %r' % failed
                  elif len(done) == k:
                    good = got == ('ok', [val(j) for j in m])
                    want = 'values in input order %r' % ([val(j) for j in m],)
                  else:
                    good, want = got == ('pending',), 'pending'
                else:
                  if oks:
                    if first_ok is None:
                      first_ok = [i for i in pre if outcome[i]] or [oks[0]]
                    good = got[0] == 'ok' and got[1] in [val(i) for i in first_ok]
                    want = 'value of the first input to succeed %r' % first_ok
                  elif len(done) == k:
                    last = list(pre) if not order else [order[-1]]      # (with one object at several positions the order of the already-complete failures is not defined)
                    good = got[0] == 'fail' and iserr(got[1]) and got[1].i in last
                    want = 'failed with the last failure %r' % last
                  else:
                    good, want = got == ('pending',), 'pending'
                stats['cases_keys'].add(('dup', kind, m, outcome, pre, order, s, got[0]))
                if not good:
                  case = {'combinator': 'When' + kind.capitalize(), 'positions_to_objects': list(m), 'outcomes': ['ok' if o else 'fail' for o in outcome],
                          'already_complete': list(pre), 'completion_order': list(order), 'after_step': s}
                  rep.violation('C17.when%s' % kind, 'When%s with one result object at several positions: expected %s, got %r; case %r'
                                % (kind.capitalize(), want, got, case), {'combinator': 'When' + kind.capitalize(), 'repeated': True}, {'case': case})
                  return
              stats['cases'] += 1


def check_unwrap(max_depth, rep, stats, plain='plain'):
  """Chain ar0 -> ar1 -> ... -> ar_d; level f (or none) fails instead of yielding the next level."""
  from scales.asynchronous import AsyncResult
  for depth in range(0, max_depth + 1):
    levels = depth + 1
    for fail_at in [None] + list(range(levels)):
      live = levels if fail_at is None else fail_at + 1
      for pre, order in orders(live, None, AsyncResult):
        ars = [AsyncResult() for _ in range(live)]

        def fire(i):
          if fail_at is not None and i == fail_at:
            ars[i].set_exception(mkerr(i))
          elif i == live - 1:
            ars[i].set(plain)
          else:
            ars[i].set(ars[i + 1])
        done = set()
        for i in pre:
          fire(i)
          done.add(i)
        vloop.run_ready()
        un = ars[0].Unwrap()
        vloop.run_ready()
        for s in [None] + list(order):
          if s is not None:
            fire(s)
            done.add(s)
            vloop.run_ready()
          stats['steps'] += 1
          got = snap(un)
          # the chain is resolved as far as the longest completed prefix 0..k
          k = 0
          while k < live and k in done:
            k += 1
          if k == live:
            want = ('fail', fail_at) if fail_at is not None else ('ok', plain)
          else:
            want = ('pending',)
          if want[0] == 'fail':
            good = got[0] == 'fail' and iserr(got[1]) and got[1].i == want[1]
          else:
            good = got == want
          case = {'combinator': 'Unwrap', 'depth': depth, 'fails_at_level': fail_at, 'final_value': repr(plain),
                  'already_complete': list(pre), 'completion_order': list(order), 'after_step': s}
          stats['cases_keys'].add(('unwrap', depth, fail_at, pre, order, s, got[0], repr(plain)))
          if not good:
            rep.violation('C17.unwrap', 'Unwrap: expected %r, got %r; case %r' % (want, got, case),
                          {'combinator': 'Unwrap'}, {'case': case})
            break
        stats['cases'] += 1
        if len(stats['samples']) < 4 and depth == 2 and pre and order:
          stats['samples'].append(case)


def check_continue(rep, stats):
  from scales.asynchronous import AsyncResult
  for api in ('ContinueWith', 'Map'):
    for src, srcval in [('ok', 'src')] + [('ok', f) for f in FALSY] + [('fail', None)]:
      for when in ('before', 'after'):     # source completes before / after the call
        for cont in ('returns', 'raises', 'returns_ar', 'returns_failed_ar', 'blocks'):
          for on_hub in ((True, False) if api == 'ContinueWith' else (None,)):
            if cont == 'blocks' and on_hub is not False:
              continue      # a continuation that blocks needs a greenlet of its own (on_hub=False)
            calls = []
            ar = AsyncResult()

            def fire():
              if src == 'ok':
                ar.set(srcval)
              else:
                ar.set_exception(mkerr(0))
            inner = AsyncResult()

            def fn(x):
              calls.append(x)
              if cont == 'blocks':
                import gevent
                gevent.sleep(0.005)     # blocks for several loop iterations before it returns
                return 'cont'
              if cont == 'raises':
                raise Err(7)
              if cont == 'returns_ar':
                inner.set('inner')
                return inner
              if cont == 'returns_failed_ar':
                inner.set_exception(mkerr(8))
                return inner
              return 'cont'
            if when == 'before':
              fire()
              vloop.run_ready()
            out = ar.ContinueWith(fn, on_hub) if api == 'ContinueWith' else ar.Map(fn)
            vloop.run_ready()
            case = {'api': api, 'source': src, 'source_value': repr(srcval), 'source_completes': when, 'continuation': cont, 'on_hub': on_hub}
            pre_ok = True
            if when == 'after':
              if calls or out.ready():
                rep.violation('C17.continue', '%s ran/completed before its source completed: %r' % (api, case),
                              {'combinator': api}, {'case': case})
                pre_ok = False
              fire()
              vloop.run_ready()
            vloop.run_ready()
            if cont == 'blocks':
              lp = vloop.loop()
              end = lp.now() + 0.02
              while True:
                tm = lp.next_timer()
                if tm is None or tm.at > end:
                  break
                lp.fire(tm)
                vloop.run_ready()
              lp.advance_to(end)
              vloop.run_ready()
            got = snap(out)
            stats['steps'] += 1
            stats['cases'] += 1
            stats['cases_keys'].add((api, src, repr(srcval), when, cont, on_hub, got[0]))
            if api == 'ContinueWith':
              want_calls = 1
              if cont == 'raises':
                good = got[0] == 'fail' and iserr(got[1]) and got[1].i == 7
              elif cont in ('returns_ar', 'returns_failed_ar'):
                good = got == ('ok', inner)
              else:
                good = got == ('ok', 'cont')
              good = good and len(calls) == 1 and calls[0] is ar
            else:
              if src == 'fail':
                want_calls = 0
                good = got[0] == 'fail' and iserr(got[1]) and got[1].i == 0 and not calls
              else:
                want_calls = 1
                if cont == 'raises':
                  good = got[0] == 'fail' and iserr(got[1]) and got[1].i == 7
                elif cont == 'returns_ar':
                  good = got == ('ok', 'inner')
                elif cont == 'returns_failed_ar':
                  good = got[0] == 'fail' and iserr(got[1]) and got[1].i == 8
                else:
                  good = got == ('ok', 'cont')
                good = good and len(calls) == 1 and calls[0] is srcval
            if pre_ok and not good:
              rep.violation('C17.continue', '%s: got %r after %d continuation calls (expected %d); case %r'
                            % (api, got, len(calls), want_calls, case), {'combinator': api}, {'case': case})
            if len(stats['samples']) < 6 and cont == 'raises' and when == 'after':
              stats['samples'].append(case)


def main(tier, seed):
  world.boot()
  rep = Report(PROP, tier, seed, 'exploration')
  stats = {'cases': 0, 'steps': 0, 'cases_keys': set(), 'samples': []}
  nmax = 5 if tier == 'quick' else 6
  for kind in ('all', 'any'):
    for n in range(1, nmax + 1):
      check_when(kind, n, rep, stats)
      world.reset()
  check_repeated_inputs(4 if tier == 'quick' else 5, rep, stats)
  world.reset()
  for mut in ('pop', 'append', 'clear'):
    MUTATE[0] = mut
    for kind in ('all', 'any'):
      for n in range(1, (3 if tier == 'quick' else 4) + 1):
        check_when(kind, n, rep, stats)
        world.reset()
  MUTATE[0] = None
  for vm in ('falsy', 'text'):
    VALMODE[0], FROMVALUE[0] = vm, True
    for kind in ('all', 'any'):
      for n in range(1, 4):
        check_when(kind, n, rep, stats)
        world.reset()
  FROMVALUE[0] = False
  VALMODE[0] = 'falsy'
  for kind in ('all', 'any'):
    for n in range(1, (4 if tier == 'quick' else 5) + 1):
      check_when(kind, n, rep, stats)
      world.reset()
  VALMODE[0] = 'text'
  # failures that are BaseException but not Exception (gevent.Timeout, GreenletExit): a failed input is a failed input
  ERRCLS[0] = BaseErr
  for kind in ('all', 'any'):
    for n in range(1, (4 if tier == 'quick' else 5) + 1):
      check_when(kind, n, rep, stats)
      world.reset()
  check_unwrap(3, rep, stats)
  check_continue(rep, stats)
  world.reset()
  ERRCLS[0] = Err
  check_unwrap(4 if tier == 'quick' else 5, rep, stats)
  for plain in FALSY:
    check_unwrap(3 if tier == 'quick' else 4, rep, stats, plain)
  world.reset()
  check_continue(rep, stats)
  lp = vloop.loop()
  if lp.errors:
    rep.violation('C17.loop-error', 'exception escaped into the event loop: %r' % (lp.errors[0][1:3],), {})
  rep.put('evaluations', stats['steps'])
  rep.put('distinct_nontrivial', len(stats['cases_keys']))
  rep.put('cases', stats['cases'])
  for s in stats['samples']:
    rep.sample(s)
  rep.part('combinators', engine='E', inputs_max=nmax, unwrap_depth_max=4 if tier == 'quick' else 5,
           cases=stats['cases'], comparison_steps=stats['steps'])
  rep.assumptions += ['zero-input WhenAll/WhenAny are outside the alphabet',
                      'inputs: distinct AsyncResult objects, and (up to 4-5 positions) every pattern of one object at several positions',
                      'values: distinct strings, and in a second pass the falsy values None, 0, \'\', (), False']
  return rep.finish(
    rule='full product of input count x success/failure assignment x already-complete subset x completion order '
         '(WhenAll/WhenAny), nesting depth x failing level x completion order of levels (Unwrap), source x timing x '
         'continuation behaviour x on_hub (ContinueWith/Map); one evaluation = one comparison of the real result '
         'with the reference after a completion step; distinct = distinct (case, step, observed state)',
    exhaustive=True)


def replay(path):
  import json
  v = json.load(open(path))
  print(json.dumps(v, indent=1))
  return main('quick', 0)
