"""A virtual-time event loop that runs underneath the *real* gevent.

gevent.hub.Hub(loop=obj) accepts any object that has the loop interface.  VLoop is that object:
a FIFO of ready callbacks, a heap of timers keyed by virtual time, and nothing else.  It never
blocks and never reads a real clock.  loop.run() drains the ready queue and returns; the gevent Hub
then throws LoopExit into the main greenlet, which is where the harness (the "scheduler") lives.
So the main greenlet regains control at every quiescent point and decides which environment event
happens next: that is where every schedule choice of an execution is taken.

Nothing of gevent or scales is re-implemented here.
"""
import heapq
import sys
import time as _time
import traceback

EPOCH = 1000.0


class _Callback(object):
  __slots__ = ('callback', 'args')

  def __init__(self, callback, args):
    self.callback = callback
    self.args = args

  def stop(self):
    self.callback = None
    self.args = None

  close = stop

  @property
  def pending(self):
    return self.callback is not None

  def __bool__(self):
    return self.args is not None


class VTimer(object):
  """A one-shot timer watcher with libev semantics on the virtual clock."""
  __slots__ = ('loop', 'after', 'at', 'seq', 'callback', 'args', '_active', 'ref', 'tag')

  def __init__(self, loop, after, ref=True):
    self.loop = loop
    self.after = max(0.0, float(after))
    self.at = None
    self.seq = 0
    self.callback = None
    self.args = None
    self._active = False
    self.ref = ref
    self.tag = None

  def start(self, callback, *args, **kw):
    if callback is None:
      raise TypeError('callback must be callable, not None')
    self.callback = callback
    self.args = args
    self.at = self.loop._now + self.after
    self.loop._tseq += 1
    self.seq = self.loop._tseq
    self._active = True
    heapq.heappush(self.loop._timers, (self.at, self.seq, self))

  def again(self, callback, *args, **kw):
    self.start(callback, *args, **kw)

  def stop(self):
    self._active = False
    self.callback = None
    self.args = None

  def close(self):
    self.stop()

  @property
  def active(self):
    return self._active

  @property
  def pending(self):
    return False

  def __enter__(self):
    return self

  def __exit__(self, *a):
    self.close()


class FakeWatcher(object):
  """What a blocked fake-socket operation waits on (via the real hub.wait)."""
  __slots__ = ('loop', 'cb', 'kind')

  def __init__(self, loop):
    self.loop = loop
    self.cb = None
    self.kind = ''

  def start(self, callback, *args, **kw):
    self.cb = (callback, args)

  def stop(self):
    self.cb = None

  close = stop

  @property
  def active(self):
    return self.cb is not None

  def trigger(self):
    if self.cb is not None:
      cb, args = self.cb
      self.cb = None
      self.loop.run_callback(cb, *args)


class VLoop(object):
  def __init__(self):
    from collections import deque
    self._ready = deque()
    self._timers = []
    self._tseq = 0
    self._now = EPOCH
    self.error_handler = None
    self.monitor = None          # called after every callback
    self.errors = []             # (context repr, type name, str(value), formatted tb)
    self.callbacks_run = 0
    self.budget = None           # if set: number of callbacks run() may execute before returning
    self._greenlets = []         # every greenlet ever scheduled through this loop
    self.hub = None
    self.log_errors = False

  # ---- interface gevent uses -------------------------------------------------------------
  def now(self):
    return self._now

  wall_offset = 0.0      # what a scenario adds to the wall clock (time.time) without touching the loop's own, monotonic time

  def wall(self):
    return self._now + self.wall_offset

  def update_now(self):
    pass

  update = update_now

  def run_callback(self, func, *args):
    cb = _Callback(func, args)
    self._ready.append(cb)
    g = getattr(func, '__self__', None)
    if g is not None and hasattr(g, 'gr_frame'):
      self._greenlets.append(g)
    return cb

  run_callback_threadsafe = run_callback

  def timer(self, after, repeat=0.0, ref=True, priority=None):
    return VTimer(self, after, ref)

  def handle_error(self, context, type, value, tb):
    if self.error_handler is not None:
      self.error_handler.handle_error(context, type, value, tb)
    else:
      self._record_error(context, type, value, tb)

  def _record_error(self, context, type, value, tb):
    if isinstance(value, BaseException) and type is not None and issubclass(type, (KeyboardInterrupt, SystemExit)):
      raise value
    try:
      txt = ''.join(traceback.format_exception(type, value, tb))
    except Exception:
      txt = repr(value)
    self.errors.append((repr(context)[:200], getattr(type, '__name__', str(type)), str(value)[:300], txt))
    if self.log_errors:
      sys.stderr.write(txt)

  def run(self, nowait=False, once=False):
    ready = self._ready
    while ready:
      if self.budget is not None:
        if self.budget <= 0:
          return
        self.budget -= 1
      cb = ready.popleft()
      callback = cb.callback
      cb.callback = None
      args = cb.args
      if callback is None or args is None:
        continue
      try:
        callback(*args)
      except:  # noqa
        self.handle_error(cb, *sys.exc_info())
      finally:
        cb.args = None
      self.callbacks_run += 1
      if self.monitor is not None:
        self.monitor()

  def destroy(self):
    pass

  def reinit(self):
    pass

  def debug(self):
    return []

  @property
  def activecnt(self):
    return len(self._ready) + len(self._timers)

  # ---- interface the harness uses ---------------------------------------------------------
  def next_timer(self):
    """Earliest active timer or None (lazy deletion of stopped ones)."""
    t = self._timers
    while t and not t[0][2]._active:
      heapq.heappop(t)
    return t[0][2] if t else None

  def active_timers(self):
    return sorted([(at, seq, tm) for (at, seq, tm) in self._timers if tm._active and tm.seq == seq],
                  key=lambda x: (x[0], x[1]))

  def fire(self, timer, front=False):
    """Advance virtual time to the timer and queue its callback.  front=True: the timer expires while ready
    callbacks are still pending; libev invokes a timer watcher directly, i.e. before those callbacks."""
    assert timer._active
    if timer.at > self._now:
      self._now = timer.at
    cb, args = timer.callback, timer.args
    timer._active = False
    if front:
      self._ready.appendleft(_Callback(cb, args))
    else:
      self._ready.append(_Callback(cb, args))

  def advance_to(self, t):
    if t > self._now:
      self._now = t

  def quiescent(self):
    return not self._ready


_LOOP = None
_HUB = None


def install():
  """Create the one VLoop/Hub of this process and route time.time through it.  Must run before
  scales is imported (scales spawns timer greenlets and binds time.time defaults at import)."""
  global _LOOP, _HUB
  if _LOOP is not None:
    return _LOOP
  import gevent
  import gevent.hub
  import gevent._hub_local as hl
  loop = VLoop()
  hub = gevent.hub.Hub(loop=loop)
  hl.set_hub(hub)
  loop.hub = hub
  hub.handle_error = loop._record_error
  _time.time = loop.wall
  _LOOP, _HUB = loop, hub
  return loop


def loop():
  return _LOOP


def hub():
  return _HUB


def run_ready(budget=None):
  """Run ready callbacks until the queue is empty (or `budget` callbacks ran).  Called from the
  main greenlet only."""
  from gevent.exceptions import LoopExit
  lp = _LOOP
  if not lp._ready:
    return
  lp.budget = budget
  try:
    _HUB.switch()
  except LoopExit:
    pass
  finally:
    lp.budget = None
