#
#   service WLeaf extends WSvc {               // third level: WLeaf -> WSvc -> WBase
#     string top(1: string s)
#   }
#
from thrift.Thrift import TType, TProcessor
from thrift.protocol.TBase import TBase
from . import WSvc, _proc


class Iface(WSvc.Iface):
  def top(self, s):
    pass


class top_args(TBase):
  __slots__ = ('s',)

  def __init__(self, s=None):
    self.s = s


top_args.thrift_spec = (None, (1, TType.STRING, 's', 'UTF8', None,),)


class top_result(TBase):
  __slots__ = ('success',)

  def __init__(self, success=None):
    self.success = success


top_result.thrift_spec = ((0, TType.STRING, 'success', 'UTF8', None,),)


class Processor(WSvc.Processor, Iface, TProcessor):
  def __init__(self, handler):
    WSvc.Processor.__init__(self, handler)
    self._processMap['top'] = Processor.process_top

  process_top = _proc.make_process('top', top_args, top_result, ['s'])


from thrift.TRecursive import fix_spec
fix_spec([top_args, top_result])
