__all__ = ['WBase', 'WSvc']
