#
# A second, unrelated service family that happens to use the same method names as vsvc with different
# signatures (hand-written in the shape of compiler output, py:dynamic).
#
#   service WBase { i64 echo(1: i64 n), void ping(1: string why) }
#
from thrift.Thrift import TType, TProcessor
from thrift.protocol.TBase import TBase
from . import _proc


class Iface(object):
  def echo(self, n):
    pass

  def ping(self, why):
    pass


class echo_args(TBase):
  __slots__ = ('n',)

  def __init__(self, n=None):
    self.n = n


echo_args.thrift_spec = (None, (1, TType.I64, 'n', None, None,),)


class echo_result(TBase):
  __slots__ = ('success',)

  def __init__(self, success=None):
    self.success = success


echo_result.thrift_spec = ((0, TType.I64, 'success', None, None,),)


class ping_args(TBase):
  __slots__ = ('why',)

  def __init__(self, why=None):
    self.why = why


ping_args.thrift_spec = (None, (1, TType.STRING, 'why', 'UTF8', None,),)


class ping_result(TBase):
  __slots__ = ()

  def __init__(self):
    pass


ping_result.thrift_spec = ()


class Processor(Iface, TProcessor):
  def __init__(self, handler):
    self._handler = handler
    self._processMap = {}
    self._processMap['echo'] = Processor.process_echo
    self._processMap['ping'] = Processor.process_ping

  process = _proc.process
  process_echo = _proc.make_process('echo', echo_args, echo_result, ['n'])
  process_ping = _proc.make_process('ping', ping_args, ping_result, ['why'])


from thrift.TRecursive import fix_spec
fix_spec([echo_args, echo_result, ping_args, ping_result])
