#
#   service WSvc extends WBase {
#     i64 add(1: i64 a, 2: i64 b),
#     oneway void touch(1: string key),          // oneway here, two-way in vsvc
#     void fire(1: string s),                    // two-way here, oneway in vsvc
#     string fetch(1: i32 id)
#   }
#
from thrift.Thrift import TType, TProcessor
from thrift.protocol.TBase import TBase
from . import WBase, _proc


class Iface(WBase.Iface):
  def add(self, a, b):
    pass

  def touch(self, key):
    pass

  def fire(self, s):
    pass

  def fetch(self, id):
    pass


class add_args(TBase):
  __slots__ = ('a', 'b')

  def __init__(self, a=None, b=None):
    self.a = a
    self.b = b


add_args.thrift_spec = (None, (1, TType.I64, 'a', None, None,), (2, TType.I64, 'b', None, None,),)


class add_result(TBase):
  __slots__ = ('success',)

  def __init__(self, success=None):
    self.success = success


add_result.thrift_spec = ((0, TType.I64, 'success', None, None,),)


class touch_args(TBase):
  __slots__ = ('key',)

  def __init__(self, key=None):
    self.key = key


touch_args.thrift_spec = (None, (1, TType.STRING, 'key', 'UTF8', None,),)


class fire_args(TBase):
  __slots__ = ('s',)

  def __init__(self, s=None):
    self.s = s


fire_args.thrift_spec = (None, (1, TType.STRING, 's', 'UTF8', None,),)


class fire_result(TBase):
  __slots__ = ()

  def __init__(self):
    pass


fire_result.thrift_spec = ()


class fetch_args(TBase):
  __slots__ = ('id',)

  def __init__(self, id=None):
    self.id = id


fetch_args.thrift_spec = (None, (1, TType.I32, 'id', None, None,),)


class fetch_result(TBase):
  __slots__ = ('success',)

  def __init__(self, success=None):
    self.success = success


fetch_result.thrift_spec = ((0, TType.STRING, 'success', 'UTF8', None,),)


class Processor(WBase.Processor, Iface, TProcessor):
  def __init__(self, handler):
    WBase.Processor.__init__(self, handler)
    self._processMap['add'] = Processor.process_add
    self._processMap['touch'] = Processor.process_touch
    self._processMap['fire'] = Processor.process_fire
    self._processMap['fetch'] = Processor.process_fetch

  process_add = _proc.make_process('add', add_args, add_result, ['a', 'b'])
  process_touch = _proc.make_process('touch', touch_args, None, ['key'], oneway=True)
  process_fire = _proc.make_process('fire', fire_args, fire_result, ['s'])
  process_fetch = _proc.make_process('fetch', fetch_args, fetch_result, ['id'])


from thrift.TRecursive import fix_spec
fix_spec([add_args, add_result, touch_args, fire_args, fire_result, fetch_args, fetch_result])
