"""Shared helper: the body every generated process_<method> has."""
from thrift.Thrift import TApplicationException, TMessageType, TType
from thrift.transport import TTransport


def make_process(name, args_cls, result_cls, argnames, oneway=False, exceptions=()):
  def process(self, seqid, iprot, oprot):
    args = args_cls()
    args.read(iprot)
    iprot.readMessageEnd()
    if oneway:
      try:
        getattr(self._handler, name)(*[getattr(args, a) for a in argnames])
      except TTransport.TTransportException:
        raise
      except Exception:
        pass
      return
    result = result_cls()
    try:
      ret = getattr(self._handler, name)(*[getattr(args, a) for a in argnames])
      if 'success' in getattr(result_cls, '__slots__', ()):
        result.success = ret
      msg_type = TMessageType.REPLY
    except TTransport.TTransportException:
      raise
    except TApplicationException as ex:
      msg_type = TMessageType.EXCEPTION
      result = ex
    except Exception as ex:
      for (field, cls) in exceptions:
        if isinstance(ex, cls):
          msg_type = TMessageType.REPLY
          setattr(result, field, ex)
          break
      else:
        msg_type = TMessageType.EXCEPTION
        result = TApplicationException(TApplicationException.INTERNAL_ERROR, 'Internal error')
    oprot.writeMessageBegin(name, msg_type, seqid)
    result.write(oprot)
    oprot.writeMessageEnd()
    oprot.trans.flush()
  return process


def process(self, iprot, oprot):
  (name, type, seqid) = iprot.readMessageBegin()
  if name not in self._processMap:
    iprot.skip(TType.STRUCT)
    iprot.readMessageEnd()
    x = TApplicationException(TApplicationException.UNKNOWN_METHOD, 'Unknown function %s' % (name))
    oprot.writeMessageBegin(name, TMessageType.EXCEPTION, seqid)
    x.write(oprot)
    oprot.writeMessageEnd()
    oprot.trans.flush()
    return
  self._processMap[name](self, seqid, iprot, oprot)
  return True
