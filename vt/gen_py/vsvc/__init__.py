__all__ = ['ttypes', 'VBase', 'VSvc']
