#
#   service VSvc extends VBase {
#     Resp pass_msg(1: Msg m) throws (1: SvcError err),
#     void check(1: i32 n) throws (1: SvcError err),
#     i32 add(1: i32 a, 2: i32 b),
#     oneway void fire(1: string s),
#     Resp fetch(1: string key) throws (1: SvcError err, 2: AuthError denied),
#     void touch(1: string key) throws (1: AuthError denied)
#   }
#
from thrift.Thrift import TType, TProcessor
from thrift.protocol.TBase import TBase
from . import VBase, _proc
from .ttypes import Msg, Resp, SvcError, AuthError


class Iface(VBase.Iface):
  def pass_msg(self, m):
    pass

  def check(self, n):
    pass

  def add(self, a, b):
    pass

  def fire(self, s):
    pass

  def fetch(self, key):
    pass

  def touch(self, key):
    pass


class pass_msg_args(TBase):
  __slots__ = ('m',)

  def __init__(self, m=None):
    self.m = m


pass_msg_args.thrift_spec = (None, (1, TType.STRUCT, 'm', [Msg, None], None,),)


class pass_msg_result(TBase):
  __slots__ = ('success', 'err')

  def __init__(self, success=None, err=None):
    self.success = success
    self.err = err


pass_msg_result.thrift_spec = (
  (0, TType.STRUCT, 'success', [Resp, None], None,),
  (1, TType.STRUCT, 'err', [SvcError, None], None,),
)


class check_args(TBase):
  __slots__ = ('n',)

  def __init__(self, n=None):
    self.n = n


check_args.thrift_spec = (None, (1, TType.I32, 'n', None, None,),)


class check_result(TBase):
  __slots__ = ('err',)

  def __init__(self, err=None):
    self.err = err


check_result.thrift_spec = (None, (1, TType.STRUCT, 'err', [SvcError, None], None,),)


class add_args(TBase):
  __slots__ = ('a', 'b')

  def __init__(self, a=None, b=None):
    self.a = a
    self.b = b


add_args.thrift_spec = (None, (1, TType.I32, 'a', None, None,), (2, TType.I32, 'b', None, None,),)


class add_result(TBase):
  __slots__ = ('success',)

  def __init__(self, success=None):
    self.success = success


add_result.thrift_spec = ((0, TType.I32, 'success', None, None,),)


class fire_args(TBase):
  __slots__ = ('s',)

  def __init__(self, s=None):
    self.s = s


fire_args.thrift_spec = (None, (1, TType.STRING, 's', 'UTF8', None,),)


class fetch_args(TBase):
  __slots__ = ('key',)

  def __init__(self, key=None):
    self.key = key


fetch_args.thrift_spec = (None, (1, TType.STRING, 'key', 'UTF8', None,),)


class fetch_result(TBase):
  __slots__ = ('success', 'err', 'denied')

  def __init__(self, success=None, err=None, denied=None):
    self.success = success
    self.err = err
    self.denied = denied


fetch_result.thrift_spec = (
  (0, TType.STRUCT, 'success', [Resp, None], None,),
  (1, TType.STRUCT, 'err', [SvcError, None], None,),
  (2, TType.STRUCT, 'denied', [AuthError, None], None,),
)


class touch_args(TBase):
  __slots__ = ('key',)

  def __init__(self, key=None):
    self.key = key


touch_args.thrift_spec = (None, (1, TType.STRING, 'key', 'UTF8', None,),)


class touch_result(TBase):
  __slots__ = ('denied',)

  def __init__(self, denied=None):
    self.denied = denied


touch_result.thrift_spec = (None, (1, TType.STRUCT, 'denied', [AuthError, None], None,),)


class Processor(VBase.Processor, Iface, TProcessor):
  def __init__(self, handler):
    VBase.Processor.__init__(self, handler)
    self._processMap['pass_msg'] = Processor.process_pass_msg
    self._processMap['check'] = Processor.process_check
    self._processMap['add'] = Processor.process_add
    self._processMap['fire'] = Processor.process_fire
    self._processMap['fetch'] = Processor.process_fetch
    self._processMap['touch'] = Processor.process_touch

  process_pass_msg = _proc.make_process('pass_msg', pass_msg_args, pass_msg_result, ['m'], exceptions=[('err', SvcError)])
  process_check = _proc.make_process('check', check_args, check_result, ['n'], exceptions=[('err', SvcError)])
  process_add = _proc.make_process('add', add_args, add_result, ['a', 'b'])
  process_fire = _proc.make_process('fire', fire_args, None, ['s'], oneway=True)
  process_fetch = _proc.make_process('fetch', fetch_args, fetch_result, ['key'], exceptions=[('err', SvcError), ('denied', AuthError)])
  process_touch = _proc.make_process('touch', touch_args, touch_result, ['key'], exceptions=[('denied', AuthError)])


from thrift.TRecursive import fix_spec
fix_spec([pass_msg_args, pass_msg_result, check_args, check_result, add_args, add_result, fire_args,
          fetch_args, fetch_result, touch_args, touch_result])
