#
#   service VSvc extends VBase {
#     Resp pass_msg(1: Msg m) throws (1: SvcError err),
#     void check(1: i32 n) throws (1: SvcError err),
#     i32 add(1: i32 a, 2: i32 b),
#     oneway void fire(1: string s)
#   }
#
from thrift.Thrift import TType, TProcessor
from thrift.protocol.TBase import TBase
from . import VBase, _proc
from .ttypes import Msg, Resp, SvcError


class Iface(VBase.Iface):
  def pass_msg(self, m):
    pass

  def check(self, n):
    pass

  def add(self, a, b):
    pass

  def fire(self, s):
    pass


class pass_msg_args(TBase):
  __slots__ = ('m',)

  def __init__(self, m=None):
    self.m = m


pass_msg_args.thrift_spec = (None, (1, TType.STRUCT, 'm', [Msg, None], None,),)


class pass_msg_result(TBase):
  __slots__ = ('success', 'err')

  def __init__(self, success=None, err=None):
    self.success = success
    self.err = err


pass_msg_result.thrift_spec = (
  (0, TType.STRUCT, 'success', [Resp, None], None,),
  (1, TType.STRUCT, 'err', [SvcError, None], None,),
)


class check_args(TBase):
  __slots__ = ('n',)

  def __init__(self, n=None):
    self.n = n


check_args.thrift_spec = (None, (1, TType.I32, 'n', None, None,),)


class check_result(TBase):
  __slots__ = ('err',)

  def __init__(self, err=None):
    self.err = err


check_result.thrift_spec = (None, (1, TType.STRUCT, 'err', [SvcError, None], None,),)


class add_args(TBase):
  __slots__ = ('a', 'b')

  def __init__(self, a=None, b=None):
    self.a = a
    self.b = b


add_args.thrift_spec = (None, (1, TType.I32, 'a', None, None,), (2, TType.I32, 'b', None, None,),)


class add_result(TBase):
  __slots__ = ('success',)

  def __init__(self, success=None):
    self.success = success


add_result.thrift_spec = ((0, TType.I32, 'success', None, None,),)


class fire_args(TBase):
  __slots__ = ('s',)

  def __init__(self, s=None):
    self.s = s


fire_args.thrift_spec = (None, (1, TType.STRING, 's', 'UTF8', None,),)


class Processor(VBase.Processor, Iface, TProcessor):
  def __init__(self, handler):
    VBase.Processor.__init__(self, handler)
    self._processMap['pass_msg'] = Processor.process_pass_msg
    self._processMap['check'] = Processor.process_check
    self._processMap['add'] = Processor.process_add
    self._processMap['fire'] = Processor.process_fire

  process_pass_msg = _proc.make_process('pass_msg', pass_msg_args, pass_msg_result, ['m'], exceptions=[('err', SvcError)])
  process_check = _proc.make_process('check', check_args, check_result, ['n'], exceptions=[('err', SvcError)])
  process_add = _proc.make_process('add', add_args, add_result, ['a', 'b'])
  process_fire = _proc.make_process('fire', fire_args, None, ['s'], oneway=True)


from thrift.TRecursive import fix_spec
fix_spec([pass_msg_args, pass_msg_result, check_args, check_result, add_args, add_result, fire_args])
