#
# Hand-written in the shape the Thrift compiler emits with the py:dynamic option (classes derive from
# TBase and carry a thrift_spec); reading and writing is done entirely by the Thrift library.
#
#   struct Msg  { 1: string content, 2: i32 n }
#   struct Resp { 1: string content, 2: list<string> tags }
#   exception SvcError { 1: string message, 2: i32 code }
#   exception AuthError { 1: string reason }
#
from thrift.Thrift import TType
from thrift.protocol.TBase import TBase, TExceptionBase


class Msg(TBase):
  __slots__ = ('content', 'n')

  def __init__(self, content=None, n=None):
    self.content = content
    self.n = n


Msg.thrift_spec = (
  None,
  (1, TType.STRING, 'content', 'UTF8', None,),
  (2, TType.I32, 'n', None, None,),
)


class Resp(TBase):
  __slots__ = ('content', 'tags')

  def __init__(self, content=None, tags=None):
    self.content = content
    self.tags = tags


Resp.thrift_spec = (
  None,
  (1, TType.STRING, 'content', 'UTF8', None,),
  (2, TType.LIST, 'tags', (TType.STRING, 'UTF8', False), None,),
)


class SvcError(TExceptionBase):
  __slots__ = ('message', 'code')

  def __init__(self, message=None, code=None):
    self.message = message
    self.code = code

  def __str__(self):
    return repr(self)


SvcError.thrift_spec = (
  None,
  (1, TType.STRING, 'message', 'UTF8', None,),
  (2, TType.I32, 'code', None, None,),
)


class AuthError(TExceptionBase):
  __slots__ = ('reason',)

  def __init__(self, reason=None):
    self.reason = reason

  def __str__(self):
    return repr(self)


AuthError.thrift_spec = (
  None,
  (1, TType.STRING, 'reason', 'UTF8', None,),
)


from thrift.TRecursive import fix_spec
fix_spec([Msg, Resp, SvcError, AuthError])
