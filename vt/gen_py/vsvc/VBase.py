#
#   service VBase { string echo(1: string s), void ping() }
#
from thrift.Thrift import TType, TProcessor
from thrift.protocol.TBase import TBase
from . import _proc


class Iface(object):
  def echo(self, s):
    pass

  def ping(self):
    pass


class echo_args(TBase):
  __slots__ = ('s',)

  def __init__(self, s=None):
    self.s = s


echo_args.thrift_spec = (None, (1, TType.STRING, 's', 'UTF8', None,),)


class echo_result(TBase):
  __slots__ = ('success',)

  def __init__(self, success=None):
    self.success = success


echo_result.thrift_spec = ((0, TType.STRING, 'success', 'UTF8', None,),)


class ping_args(TBase):
  __slots__ = ()

  def __init__(self):
    pass


ping_args.thrift_spec = ()


class ping_result(TBase):
  __slots__ = ()

  def __init__(self):
    pass


ping_result.thrift_spec = ()


class Processor(Iface, TProcessor):
  def __init__(self, handler):
    self._handler = handler
    self._processMap = {}
    self._processMap['echo'] = Processor.process_echo
    self._processMap['ping'] = Processor.process_ping

  process = _proc.process
  process_echo = _proc.make_process('echo', echo_args, echo_result, ['s'])
  process_ping = _proc.make_process('ping', ping_args, ping_result, [])


from thrift.TRecursive import fix_spec
fix_spec([echo_args, echo_result, ping_args, ping_result])
