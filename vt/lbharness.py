"""Harness for the heap and aperture balancers (C03, C04, C05, C06): real balancer sink, scripted
server set, stub channels, a reference model, and the oracles of those four properties.

A state is reached by a history of operations; an operation is a list whose last element is the
vector of internal random choices taken while applying it:
  ['D', ch]            dispatch one request
  ['C', serial, ch]    complete the oldest outstanding request on stub channel `serial`
  ['CX', serial, ch]   the same, but the sink above the balancer raises while it handles the reply
  ['CD', serial, ch]   the same, but the sink above the balancer dispatches the next request from inside its reply handler
  ['Down', e, ch] / ['Up', e, ch]     flip the channel of active member e between Open and Closed
  ['Join', e, ch] / ['Leave', e, ch]  server-set notifications (duplicates / unknown members when enabled)
  ['Adv', k, ch]       advance virtual time by ADV[k], firing due timers
  ['OpenOk', serial, ch] / ['OpenFail', serial, ch]   finish a pending channel open (when opens are scripted pending)
  ['Gate', ch]         let a blocked GetServers() return (ends initial loading)
  ['JoinQ', e, ch] / ['LeaveQ', e, ch]  notification delivered through the serial notifier greenlet (may block on loading)
"""
import math

from . import stubs, vloop, world

ADV = [0.1, 1.0, 5.0, 30.0, 0.0004]


class LbWorld(object):
  def __init__(self, params):
    import gevent
    from scales.constants import SinkProperties
    from scales.loadbalancer.heap import HeapBalancerSink
    from scales.loadbalancer.aperture import ApertureBalancerSink
    self.p = params
    self.lp = vloop.loop()
    self.kind = params['kind']
    self.n = params['n']
    self.universe = params['n'] + params.get('extra', 0)
    self.reg = stubs.Registry()
    self.reg.default_open = params.get('open_mode', 'ok')
    self.reg.ok_first = params.get('ok_first', 0)
    self.m_ema = None          # reference EMA of total outstanding: (value, time)
    Prov = stubs.make_provider_class()
    self.ssp = Prov([self.server(i) for i in range(self.n)])
    if params.get('endpoint_name'):
      # a provider that tells the balancer to use a *named* additional endpoint of each member (zk://...#name)
      ename = params['endpoint_name']

      class NamedProv(Prov):
        endpoint_name = ename
      self.ssp.__class__ = NamedProv
    if params.get('gate'):
      import gevent.event
      self.ssp.gate = gevent.event.Event()
    if self.kind == 'heap':
      builder = HeapBalancerSink.Builder(server_set_provider=self.ssp)
    elif params.get('stock_after_prior'):
      # another aperture balancer of the same process was configured with its own settings earlier; the one under test uses the stock ones
      ApertureBalancerSink.Builder(server_set_provider=Prov([]), min_size=3, max_size=3, min_load=0.1, max_load=9.0)
      builder = ApertureBalancerSink.Builder(server_set_provider=self.ssp)
    else:
      builder = ApertureBalancerSink.Builder(
        server_set_provider=self.ssp,
        min_size=params.get('min_size', 1), max_size=params.get('max_size', 2 ** 31),
        min_load=params.get('min_load', 0.5), max_load=params.get('max_load', 2.0),
        jitter_min_sec=params.get('jitter_min', 0), jitter_max_sec=params.get('jitter_max', 0))
    builder.next_provider = stubs.StubProvider(self.reg)
    self.HB = HeapBalancerSink
    self.Terminal = stubs.make_terminal_class()
    self.term = self.Terminal()
    self.viol = []
    self.members = [i for i in range(self.n)]      # reference model of the server set (delivered view)
    self.loading = bool(params.get('gate'))
    if params.get('load_fails'):
      # the first attempt to load the member list fails: with an ordinary exception, or with one that derives from BaseException
      # only (gevent.Timeout - e.g. the provider's own guard around a slow lookup); the balancer retries after 5 s
      import gevent
      self.ssp.raise_once = Exception('server set unavailable') if params['load_fails'] == 'exception' else gevent.Timeout(1)
      self.loading = True
    self.queued = []                               # notifications accepted by the notifier but not yet applied
    self.requests = []                             # {'rid', 'serial', 'done'}
    self.rid = 0
    self.nodes = {}                                # channel serial -> node object (captured while in the heap)
    self.removed = {}                              # channel serial -> {'expect_close_at_drain': bool}
    self.downed = set()                            # serials turned Closed by a Down op
    self.expansions = 0
    self.notifier_q = None
    if params.get('bystander_pending') and self.kind == 'aperture':
      # a second, independent aperture balancer in the same process (another client of the same cluster) whose first
      # channel open never finishes: its pending expansion is its own business
      reg2 = stubs.Registry()
      reg2.default_open = 'pending'
      b2 = ApertureBalancerSink.Builder(server_set_provider=Prov([stubs.make_server(i) for i in range(self.n)]), min_size=1)
      b2.next_provider = stubs.StubProvider(reg2)
      self.lb2 = b2.CreateSink({SinkProperties.Label: 'svc2'})
      self.lb2_open = self.lb2.Open()
      vloop.run_ready()
    self.m_clock = self.lp.wall()      # the reference clock starts when the balancer is created, as the balancer's own does
    self.lb = builder.CreateSink({SinkProperties.Label: 'svc'})
    self.log = stubs.RecLog()
    self.lb._log = self.log
    self.open_ar = self.lb.Open()
    vloop.run_ready()
    self._after_step('open', None)

  # ---- helpers ---------------------------------------------------------------------------------
  def server(self, i):
    """Member i as the server set reports it.  With 'endpoint_name' the member's service endpoint is a different address
    (admin port on another host name) and the endpoint to balance over is the additional endpoint of that name."""
    if self.p.get('tuple_endpoints'):
      # endpoints that are plain named tuples (host, port), as the Kafka router's KafkaEndpoint is
      import collections
      EP = collections.namedtuple('EP', 'host port')
      return stubs.Server(EP('h%d' % i, 1000 + i))
    if not self.p.get('endpoint_name'):
      return stubs.make_server(i)
    from scales.loadbalancer.zookeeper import Endpoint
    import collections
    NS = collections.namedtuple('NamedServer', 'service_endpoint additional_endpoints')
    return NS(Endpoint('admin%d' % i, 9000 + i), {self.p['endpoint_name']: stubs.make_endpoint(i), 'other': Endpoint('x%d' % i, 5000 + i)})

  def ep_idx(self, ep):
    return ep.port - 1000 if ep is not None else -1

  def heap_nodes(self):
    nodes = list(self.lb._heap[1:])
    bad = [n for n in nodes if not hasattr(n.channel, 'serial')]
    if bad and not getattr(self, '_corrupt', False):
      self._corrupt = True
      self.v('LB.exception', 'the balancer\'s internal placeholder node (endpoint %r) appears among its members' % (bad[0].endpoint,))
    return [n for n in nodes if hasattr(n.channel, 'serial')]

  def outstanding(self, serial):
    return sum(1 for r in self.requests if r['serial'] == serial and not r['done'])

  def total_outstanding(self):
    return sum(1 for r in self.requests if not r['done'])

  def chan(self, serial):
    return self.reg.channels[serial]

  def is_open(self, ch):
    from scales.constants import ChannelState
    return ch.state == ChannelState.Open

  def active_eps(self):
    return [self.ep_idx(n.endpoint) for n in self.heap_nodes()]

  def idle_eps(self):
    if self.kind == 'aperture':
      return sorted(self.ep_idx(e) for e in self.lb._idle_endpoints)
    return []

  def v(self, clause, msg, **sig):
    self.viol.append({'clause': clause, 'message': msg, 'sig': sig})

  # ---- operations ------------------------------------------------------------------------------
  def apply(self, op):
    name = op[0]
    choices = op[-1] if isinstance(op[-1], list) else []
    ch = world.Chooser(choices)
    world.set_chooser(ch)
    self.pre = self._snap()
    try:
      getattr(self, '_op_' + name)(*op[1:-1] if isinstance(op[-1], list) else op[1:])
      vloop.run_ready()
    except world.Divergence:
      raise
    except Exception as e:  # noqa
      # in the real stack this exception would escape into the greenlet that delivered the event (a reply, a
      # notification); here the harness delivers it, so it is recorded instead
      self.v('LB.exception', 'the balancer raised %s: %s while handling %r' % (type(e).__name__, e, op))
    finally:
      world.set_chooser(None)
    self._after_step(name, op)
    return [(p.labels, p.chosen) for p in ch.points]

  def _op_D(self, reuse=False):
    from scales.message import MethodCallMessage
    from scales.constants import MessageProperties
    from scales.sink import ClientMessageSinkStack
    before = [(n.channel.serial, self.is_open(n.channel)) for n in self.heap_nodes()]
    counts = {s: self.outstanding(s) for s in range(len(self.reg.channels))}
    self.rid += 1
    rid = self.rid
    if reuse:
      msg = [r for r in self.requests if not r['done'] and r.get('msg') is not None][-1]['msg']
    else:
      msg = MethodCallMessage(None, 'm', (), {})
    msg.properties[MessageProperties.Endpoint] = None
    msg.properties['__rid'] = rid
    evt = None
    if 'TO' in self.p['ops']:
      from scales.message import Deadline
      from scales.observable import Observable
      evt = Observable()
      msg.properties[Deadline.EVENT_KEY] = evt
    stack = ClientMessageSinkStack()
    stack.Push(self.term, rid)
    nreq = len(self.reg.request_log)
    self.lb.AsyncProcessRequest(stack, msg, None, {})
    vloop.run_ready()
    got = [e for e in self.reg.request_log[nreq:] if e[2] == rid]
    after = [(n.channel.serial, self.is_open(n.channel)) for n in self.heap_nodes()]
    resp = self.term.responses.get(rid)
    if not got:
      from scales.loadbalancer.base import NoMembersError
      if self.loading:
        # balancer still opening: the request legitimately waits
        self.requests.append({'rid': rid, 'serial': None, 'done': False, 'stack': stack, 'waiting': True, 'evt': evt})
        return
      if before or after:
        self.v('C03.not-dispatched', 'request %d reached no member although the balancer had %d active members; response %r'
               % (rid, len(before), resp and resp[0][1].error))
      elif not resp or not isinstance(resp[0][1].error, NoMembersError):
        self.v('C03.no-members', 'no members, but request %d did not fail at once with NoMembersError: %r' % (rid, resp))
      elif self.members and not self.queued:
        self.v('C03.no-members', 'request %d failed with NoMembersError although the server set has members %r (active %r, idle %r)'
               % (rid, sorted(self.members), self.active_eps(), self.idle_eps()), kind=self.kind)
      self.requests.append({'rid': rid, 'serial': None, 'done': True, 'stack': stack})
      return
    serial = got[0][1]
    self.requests.append({'rid': rid, 'serial': serial, 'done': False, 'stack': stack, 'msg': msg})
    chan = self.chan(serial)
    stamped = msg.properties.get(MessageProperties.Endpoint)
    if stamped != chan.endpoint:
      self.v('C03.stamp', 'request %d stamped with endpoint %s but sent to %s' % (rid, stamped, chan.endpoint))
    ok = False
    why = []
    for label, snap in (('before', before), ('after', after)):
      sers = [s for s, _ in snap]
      if serial not in sers:
        why.append('%s: chosen channel not among active members' % label)
        continue
      opens = [s for s, o in snap if o]
      chosen_open = dict(snap)[serial]
      if opens:
        mn = min(counts.get(s, 0) for s in opens)
        if chosen_open and counts.get(serial, 0) == mn:
          ok = True
        else:
          why.append('%s: chose ep%d (open=%s, outstanding=%d) while open members have min outstanding %d: %s' % (
            label, self.ep_idx(chan.endpoint), chosen_open, counts.get(serial, 0), mn,
            [(self.ep_idx(self.chan(s).endpoint), counts.get(s, 0)) for s in opens]))
      else:
        ok = True    # no open member in use: any member is acceptable
    if not ok:
      self.v('C03.least-loaded', 'request %d: %s' % (rid, '; '.join(why)), kind=self.kind)

  def _op_C(self, serial):
    from scales.message import MethodReturnMessage
    r = next(r for r in self.requests if r['serial'] == serial and not r['done'])
    r['done'] = True
    r['stack'].AsyncProcessResponseMessage(MethodReturnMessage(return_value='r%d' % r['rid']))

  class UpstreamError(Exception):
    pass

  def _op_CX(self, serial):
    def boom(context, msg):
      self.term.on_response = None
      raise LbWorld.UpstreamError('sink above the balancer failed')
    self.term.on_response = boom
    try:
      self._op_C(serial)
    except LbWorld.UpstreamError:
      pass
    finally:
      self.term.on_response = None

  def _op_CD(self, serial):
    def again(context, msg):
      self.term.on_response = None
      self._op_D()
    self.term.on_response = again
    try:
      self._op_C(serial)
    finally:
      self.term.on_response = None

  def _op_ReOpen(self):
    """Open() is called again on the balancer after it has opened (what DispatcherOpen() on a client does): idempotent."""
    self._reopened = True
    self.lb.Open()

  def _op_R(self):
    """The message object of the most recent unanswered request is dispatched a second time while the first dispatch is still
    outstanding (a retry / hedging layer re-sending the same message): both are ordinary, independent requests."""
    self._op_D(reuse=True)

  def _op_TO(self, rid):
    """The deadline of a request that is still waiting for the balancer to open fires (what ClientTimeoutSink does: set the
    deadline event, answer the caller with TimeoutError)."""
    from scales.message import MethodReturnMessage, TimeoutError
    r = next(r for r in self.requests if r['rid'] == rid)
    r['done'] = True
    r['timed_out'] = True
    r['evt'].Set(True)
    r['stack'].AsyncProcessResponseMessage(MethodReturnMessage(error=TimeoutError()))

  def _op_Down(self, e):
    from scales.constants import ChannelState
    n = next(n for n in self.heap_nodes() if self.ep_idx(n.endpoint) == e)
    n.channel._state = ChannelState.Closed
    self.downed.add(n.channel.serial)

  def _op_Up(self, e):
    from scales.constants import ChannelState
    n = next(n for n in self.heap_nodes() if self.ep_idx(n.endpoint) == e)
    n.channel._state = ChannelState.Open
    self.downed.discard(n.channel.serial)

  def _op_Join(self, e):
    self.ssp.on_join(self.server(e))
    if e not in self.members:
      self.members.append(e)

  def _op_Leave(self, e):
    self.ssp.on_leave(self.server(e))
    if e in self.members:
      self.members.remove(e)

  def _op_LeaveX(self, e):
    """A leave notification during which closing the departing member's channel raises (the server set logs the error of
    the callback and carries on with later notifications)."""
    flagged = [n.channel for n in self.heap_nodes() if self.ep_idx(n.endpoint) == e]
    for ch in flagged:
      ch.close_raises = True
    try:
      self.ssp.on_leave(self.server(e))
    except stubs.StubCloseError:
      pass
    finally:
      for ch in flagged:
        ch.close_raises = False      # only a Close() made during this notification fails (a deferred close at drain works)
    if e in self.members:
      self.members.remove(e)

  def _ensure_notifier(self):
    import gevent
    import gevent.queue
    if self.notifier_q is None:
      self.notifier_q = gevent.queue.Queue()

      def worker():
        while True:
          kind, e = self.notifier_q.get()
          (self.ssp.on_join if kind == 'J' else self.ssp.on_leave)(self.server(e))
          self.queued.pop(0)
          if kind == 'J':
            if e not in self.members:
              self.members.append(e)
          elif e in self.members:
            self.members.remove(e)
      gevent.spawn(worker)

  def _op_JoinQ(self, e):
    self._ensure_notifier()
    self.queued.append(('J', e))
    self.notifier_q.put(('J', e))

  def _op_LeaveQ(self, e):
    self._ensure_notifier()
    self.queued.append(('L', e))
    self.notifier_q.put(('L', e))

  def _op_Gate(self):
    self.ssp.gate.set()
    self.loading = False

  def _op_Adv(self, k):
    target = self.lp.now() + ADV[k]
    while True:
      vloop.run_ready()
      t = self.lp.next_timer()
      if t is None or t.at > target:
        break
      self.lp.fire(t)
    self.lp.advance_to(target)

  def _op_OpenOk(self, serial):
    self.chan(serial).finish_open(True)

  def _op_OpenFail(self, serial):
    self.chan(serial).finish_open(False)

  # ---- enabled operations ---------------------------------------------------------------------------
  def enabled(self):
    p = self.p
    ops = []
    alpha = p['ops']
    if 'D' in alpha and self.total_outstanding() < p.get('max_out', 4):
      ops.append(['D'])
    if 'C' in alpha:
      seen = set()
      for r in self.requests:
        if not r['done'] and r['serial'] is not None and r['serial'] not in seen:
          seen.add(r['serial'])
          ops.append(['C', r['serial']])
          if 'CX' in alpha:
            ops.append(['CX', r['serial']])
          if 'CD' in alpha:
            ops.append(['CD', r['serial']])
    if 'ReOpen' in alpha and not self.loading and not getattr(self, '_reopened', False):
      ops.append(['ReOpen'])
    if 'R' in alpha and self.total_outstanding() < p.get('max_out', 4) and any(not r['done'] and r.get('msg') is not None for r in self.requests):
      ops.append(['R'])
    if 'TO' in alpha:
      for r in self.requests:
        if r.get('waiting') and not r['done'] and r.get('evt') is not None:
          ops.append(['TO', r['rid']])
    if 'Down' in alpha:
      for n in self.heap_nodes():
        if self.is_open(n.channel) and len(self.downed) < p.get('max_down', 2):
          ops.append(['Down', self.ep_idx(n.endpoint)])
    if 'Up' in alpha:
      for n in self.heap_nodes():
        if n.channel.serial in self.downed and n.channel.close_calls == 0:
          ops.append(['Up', self.ep_idx(n.endpoint)])
    jk, lk = ('JoinQ', 'LeaveQ') if p.get('notifier') else ('Join', 'Leave')
    if 'Join' in alpha:
      for e in range(self.universe):
        eff = self._effective_members()
        if e not in eff or p.get('dup_ops'):
          if self._nnotif() < p.get('max_notifications', 99):
            ops.append([jk, e])
    if 'Leave' in alpha:
      for e in range(self.universe):
        eff = self._effective_members()
        if e in eff or p.get('dup_ops'):
          if self._nnotif() < p.get('max_notifications', 99):
            ops.append([lk, e])
    if 'LeaveX' in alpha and not p.get('notifier'):
      for e in range(self.universe):
        if e in self.members and self._nnotif() < p.get('max_notifications', 99) and not getattr(self, '_leavex', False):
          ops.append(['LeaveX', e])
    if 'Back' in alpha and self.lp.wall_offset == 0.0:
      ops.append(['Back', 0])
      ops.append(['Back', 1])      # more than an hour (a mis-set clock being corrected)
    if 'Gate' in alpha and self.loading:
      ops.append(['Gate'])
    if 'Adv' in alpha and (not self.loading or p.get('load_fails')):
      for k in p.get('advs', [1]):
        ops.append(['Adv', k])
    if 'Open' in alpha:
      for ch in self.reg.channels:
        if ch.open_ars:
          ops.append(['OpenOk', ch.serial])
          ops.append(['OpenFail', ch.serial])
    return ops

  def _nnotif(self):
    return getattr(self, '_notif_count', 0)

  def _effective_members(self):
    eff = list(self.members)
    for kind, e in self.queued:
      if kind == 'J' and e not in eff:
        eff.append(e)
      elif kind == 'L' and e in eff:
        eff.remove(e)
    return eff

  # ---- oracles evaluated in every state -----------------------------------------------------------
  def _after_step(self, name, op):
    lb = self.lb
    HB = self.HB
    if self.p.get('load_fails') and self.loading and self.lb._LoadBalancerSink__init_done.is_set():
      self.loading = False
    if name in ('Join', 'Leave', 'JoinQ', 'LeaveQ', 'LeaveX'):
      self._notif_count = self._nnotif() + 1
    if name == 'LeaveX':
      self._leavex = True
    if self.lp.errors:
      self.v('LB.exception', 'exception escaped into the event loop during %r: %s: %s' % (op, self.lp.errors[0][1], self.lp.errors[0][2]))
      self.lp.errors = []
    # requests issued while the balancer was still opening are dispatched once it opens
    for r in self.requests:
      if r.get('waiting') and r['serial'] is None and (not r['done'] or r.get('timed_out')):
        for (ev, s2, rid2) in self.reg.request_log:
          if rid2 == r['rid']:
            r['serial'] = s2
            r['waiting'] = False
            if r.get('timed_out'):
              self.v('C04.load', 'request %d timed out while the balancer was opening (its caller has TimeoutError) and was sent to '
                     'channel #%d when the balancer opened: that member is charged with a request nobody waits for' % (rid2, s2), kind=self.kind)
              self.v('C12.sent-after-timeout', 'request %d was waiting for the balancer to open when its caller was handed TimeoutError; '
                     'when the balancer opened it was sent on to channel #%d' % (rid2, s2), kind=self.kind)
    if self.p.get('c06') and op is not None:
      self._c06(name, op)
    in_heap = {}
    for n in self.heap_nodes():
      s = n.channel.serial
      in_heap[s] = n
      self.nodes[s] = n
    # --- C05: a member is served by a channel that was created for that member's endpoint
    for s, n in in_heap.items():
      if n.channel.endpoint != n.endpoint:
        self.v('C05.endpoint', 'after %r: member ep%d is served by a channel that connects to ep%d'
               % (op, self.ep_idx(n.endpoint), self.ep_idx(n.channel.endpoint)), kind=self.kind)
    # --- C04: load conservation for every node ever seen
    for s, n in self.nodes.items():
      k = (n.load - HB.Idle) % HB.Penalty
      want = self.outstanding(s)
      if k != want:
        self.v('C04.load', 'after %r: balancer attributes load %d to ep%d (channel #%d), %d requests are outstanding there'
               % (op, k, self.ep_idx(n.endpoint), s, want), kind=self.kind)
    if any('below Zero' in m for (_, m) in self.log.records):
      self.v('C04.below-zero', 'balancer logged a load decrement below zero after %r' % (op,), kind=self.kind)
      self.log.records = []
    if self.kind == 'aperture' and lb._total != self.total_outstanding_dispatched():
      self.v('C04.total', 'aperture total %d != outstanding %d' % (lb._total, self.total_outstanding_dispatched()))
    # --- C04: removal -> drain -> close
    for s, n in self.nodes.items():
      ch = self.chan(s)
      if s not in in_heap and s not in self.removed:
        was_down = n.load >= 0
        idle = self.outstanding(s) == 0
        # the statement speaks about removal from the *server set*; an aperture contraction (member still in
        # the server set, goes back to the idle pool) is not held to the drain/close clauses
        by_leave = self.ep_idx(n.endpoint) not in self.members
        self.removed[s] = {'at_drain': by_leave and not (idle or was_down), 'immediate': idle or was_down,
                           'by_leave': by_leave}
        if by_leave and (idle or was_down) and ch.close_calls == 0:
          self.v('C04.close-now', 'after %r: ep%d (channel #%d) left the balancer %s but its channel was not closed'
                 % (op, self.ep_idx(n.endpoint), s, 'idle' if idle else 'marked down'), kind=self.kind)
      if s in self.removed and self.removed[s]['at_drain']:
        out = self.outstanding(s)
        if out > 0 and ch.close_calls > 0:
          self.v('C04.close-early', 'after %r: removed ep%d (channel #%d) was closed with %d requests outstanding'
                 % (op, self.ep_idx(n.endpoint), s, out), kind=self.kind)
        if out == 0 and ch.close_calls == 0:
          self.v('C04.close-at-drain', 'after %r: removed ep%d (channel #%d) drained but was never closed'
                 % (op, self.ep_idx(n.endpoint), s), kind=self.kind)
    # a member that left the server set and has nothing outstanding must have been closed, whatever the balancer's own
    # bookkeeping says about it (it may wrongly still list the member)
    if not self.loading and not self.queued:
      for s, n in in_heap.items():
        e = self.ep_idx(n.endpoint)
        if e not in self.members and self.outstanding(s) == 0 and self.chan(s).close_calls == 0 and s not in self.downed:
          self.v('C04.close-now', 'after %r: ep%d (channel #%d) left the server set with nothing outstanding but its channel was not closed '
                 '(the balancer still lists it as a member)' % (op, e, s), kind=self.kind)
    # requests may only go to channels that are in use
    for (ev, s, rid) in self.reg.request_log[getattr(self, '_reqlog_seen', 0):]:
      if s in self.removed and self.removed[s]['by_leave']:
        self.v('C04.request-after-removal', 'request %s was sent to removed channel #%d' % (rid, s), kind=self.kind)
    self._reqlog_seen = len(self.reg.request_log)
    # --- C05 / C06 partition: eligible endpoints == server set
    if not self.loading and not self.queued:
      act = self.active_eps()
      idle = self.idle_eps()
      elig = sorted(act + idle)
      if len(set(act)) != len(act):
        self.v('C05.duplicate', 'after %r: duplicate active members %r' % (op, act), kind=self.kind)
      if set(act) & set(idle):
        self.v('C06.partition', 'after %r: members %r are both active and idle' % (op, sorted(set(act) & set(idle))))
      if sorted(set(elig)) != sorted(self.members):
        self.v('C05.membership', 'after %r: balancer can dispatch to %r (active %r, idle %r) but the server set is %r'
               % (op, sorted(set(elig)), act, idle, sorted(self.members)), kind=self.kind)
      sv = sorted(self.ep_idx(e) for e in lb._servers.keys())
      if sv != sorted(self.members):
        self.v('C05.servers', 'after %r: known servers %r != server set %r' % (op, sv, sorted(self.members)), kind=self.kind)

  def probe(self):
    """Behavioural membership probe (heap balancer, all member channels open): keep dispatching without
    completing; the set of endpoints that receive a request must be exactly the server set."""
    if self.loading or self.queued or self.viol:
      return
    if any(not self.is_open(n.channel) for n in self.heap_nodes()):
      return
    base = max([self.outstanding(n.channel.serial) for n in self.heap_nodes()] or [0])
    n0 = len(self.reg.request_log)
    rounds = (base + 1) * max(1, len(self.heap_nodes())) + 1
    saved_viol = list(self.viol)
    for _ in range(rounds):
      self._op_D()
    self.viol = saved_viol     # least-loaded clauses belong to C03
    hit = sorted(set(self.ep_idx(self.chan(s).endpoint) for (_, s, _) in self.reg.request_log[n0:]))
    if hit != sorted(self.members):
      self.v('C05.probe', 'dispatching %d requests reached endpoints %r, the server set is %r' % (rounds, hit, sorted(self.members)),
             kind=self.kind)

  def _snap(self):
    lb = self.lb
    nodes = self.heap_nodes()
    d = {'size': len(nodes), 'members': len(self.members),
         'all_open': not any(n.channel.is_closed for n in nodes),
         'healthy': sum(1 for n in nodes if n.channel.is_open),
         'down_marked': set(n.channel.serial for n in nodes if n.load >= 0),
         'idle': len(self.idle_eps()), 'total': self.total_outstanding_dispatched(), 'now': self.lp.now()}
    if self.kind == 'aperture':
      # the harness's own view: members of THIS balancer whose channel open has not finished
      d['pending'] = sum(1 for n in nodes if n.channel.open_ars)
    return d

  def _ref_clock(self):
    """Reference time base of the load average: the wall clock, never going backwards (a backward step freezes it)."""
    self.m_clock = max(getattr(self, 'm_clock', float('-inf')), self.lp.wall())
    return self.m_clock

  def _op_Back(self, k):
    """The wall clock steps backwards (NTP correction, VM migration); the event loop's own time does not."""
    self.lp.wall_offset -= [10.0, 4000.0][k]

  def _ema_update(self, ts, sample):
    if self.m_ema is None:
      self.m_ema = (float(sample), ts)
    else:
      val, t0 = self.m_ema
      w = math.exp(-float(ts - t0) / 5.0)
      self.m_ema = (sample * (1 - w) + val * w, ts)
    return self.m_ema[0]

  def _c06(self, name, op):
    """Aperture clauses: bounds per step, EMA tracking, step response."""
    p = self.p
    lb = self.lb
    pre = self.pre
    post = self._snap()
    mn, mx = p.get('min_size', 1), p.get('max_size', 2 ** 31)
    lo, hi = p.get('min_load', 0.5), p.get('max_load', 2.0)
    adjusted = False
    if name == 'D' and post['total'] == pre['total'] + 1:
      adjusted = True
    if name == 'C':
      adjusted = True
    # bounds
    if post['size'] < pre['size'] and name not in ('Leave', 'LeaveQ'):
      floor = min(mn, post['members'])
      if post['size'] < floor:
        self.v('C06.min-size', 'after %r: active set shrank from %d to %d, below min(min_size=%d, members=%d)'
               % (op, pre['size'], post['size'], mn, post['members']))
    # growth caused by a member being *marked down in this very step* is exempt (the statement says so); any other growth
    # in a dispatch / completion step is load-driven, whether or not dead members sit in the active set
    newly_down = post['down_marked'] - pre['down_marked']
    if post['size'] > pre['size'] and name in ('D', 'C') and not newly_down:
      if post['size'] > mx:
        self.v('C06.max-size', 'after %r: load-driven growth took the active set from %d to %d, beyond max_size=%d'
               % (op, pre['size'], post['size'], mx))
    if adjusted:
      ema = self._ema_update(self._ref_clock(), post['total'])
      if abs(lb._ema.value - ema) > 1e-9:
        self.v('C06.ema', 'after %r: smoothed load is %.6f, reference EMA of outstanding requests is %.6f' % (op, lb._ema.value, ema))
      if pre['all_open'] and pre['size'] > 0 and p.get('c06_response', True):
        load = ema / pre['size']
        if load >= hi and pre['idle'] > 0 and pre['size'] < mx:
          want = pre['size'] + 1
          why = 'load %.3f >= max_load %.2f, %d idle members, size %d < max_size' % (load, hi, pre['idle'], pre['size'])
        elif load <= lo and pre['size'] > mn and pre['healthy'] > mn and not pre['pending']:
          want = pre['size'] - 1
          why = 'load %.3f <= min_load %.2f, size %d > min_size %d, nothing pending' % (load, lo, pre['size'], mn)
        else:
          want = pre['size']
          why = 'load %.3f inside the band or size pinned (size %d, idle %d, pending %d)' % (load, pre['size'], pre['idle'], pre['pending'])
        ok_sizes = {want}
        if load <= lo and pre['size'] > mn and pre['healthy'] > mn and pre['pending']:
          # the statement's shrink condition holds but an expansion is still pending: the implementation defers the
          # contraction; the statement allows either
          ok_sizes.add(pre['size'] - 1)
        if post['size'] not in ok_sizes:
          self.v('C06.response', 'after %r: active set went %d -> %d, expected %d (%s)' % (op, pre['size'], post['size'], want, why))

  def total_outstanding_dispatched(self):
    return sum(1 for r in self.requests if not r['done'] and r['serial'] is not None)

  # ---- canonical key -------------------------------------------------------------------------------
  def key(self):
    lb = self.lb
    HB = self.HB
    now = self.lp.now()

    def nd(n):
      ch = n.channel
      return (self.ep_idx(n.endpoint), n.load - HB.Idle if n.load < 0 else ('dn', n.load), n.index,
              ch.state, self.outstanding(ch.serial), min(ch.close_calls, 1), len(ch.open_ars))
    heap = tuple(nd(n) for n in self.heap_nodes())
    dq = []
    n = lb._downq
    while n is not None and len(dq) < 20:
      dq.append((self.ep_idx(n.endpoint), n.index < 0))
      n = n.downq
    drains = tuple(sorted((self.ep_idx(self.nodes[s].endpoint), self.outstanding(s), min(self.chan(s).close_calls, 1),
                           self.removed[s]['at_drain'], self.nodes[s].load - HB.Idle if self.nodes[s].load < 0 else ('dn', self.nodes[s].load))
                          for s in self.removed if self.outstanding(s) > 0))
    waiting = (sum(1 for r in self.requests if r.get('waiting') and not r['done']),
               sum(1 for r in self.requests if r.get('waiting') and r.get('timed_out')))      # still parked in the balancer, caller already answered
    k = [self.kind, heap, tuple(dq), drains, tuple(sorted(self.members)), tuple(self.queued), self.loading, waiting,
         tuple(sorted(self.ep_idx(e) for e in lb._servers.keys())), lb._open, len(self.downed)]
    if self.kind == 'aperture':
      ema = lb._ema
      k += [tuple(self.idle_eps()), tuple(sorted(self.ep_idx(e) for e in lb._pending_endpoints)), lb._total,
            round(ema.value, 9), round(now - ema._time, 6) if ema._time != -1 else None,
            round(now - lb._time._last, 6) if hasattr(getattr(lb, '_time', None), '_last') else None]
    timers = tuple(round(at - now, 6) for (at, seq, tm) in self.lp.active_timers() if at - now < 1000 and self.p.get('key_timers'))
    k.append(timers)
    k.append(self._nnotif() if self.p.get('max_notifications') else 0)
    k.append(getattr(self, '_leavex', False))
    k.append(self.lp.wall_offset)
    k.append(getattr(self, '_reopened', False))
    live = [r for r in self.requests if not r['done'] and r.get('msg') is not None]
    k.append(tuple(sorted((r['serial'], sum(1 for q in live if q['msg'] is r['msg'])) for r in live
                          if sum(1 for q in live if q['msg'] is r['msg']) > 1)))       # outstanding requests that share a message object
    if self.m_ema is not None and self.p.get('c06'):
      k.append((round(self.m_ema[0], 9), round(now - self.m_ema[1], 6), self.lp.wall_offset))
    return repr(k)


def build(params, hist):
  world.reset()
  if params.get('shuffle_perms'):
    world.SHIMS['lbbase'].shuffle_perms = True
  w = LbWorld(params)
  for op in hist:
    if _own(params, w.viol):
      break
    w.apply(op)
  return w


def _own(params, viol):
  """Violations of the clauses the running check reports (a state that only violates a sibling property's clause is
  still explored further, so that this property's consequences of the same defect are reached)."""
  pre = tuple(params.get('prefixes') or ())
  if not pre:
    return list(viol)
  return [v for v in viol if v['clause'].startswith(pre)]


def expand(params, hist):
  from . import bfs
  w = build(params, hist)
  out = {'key': w.key(), 'children': [], 'violations': list(w.viol), 'builds': 1}
  if _own(params, w.viol):
    return out
  for op in w.enabled():
    def apply_fn(pfx, op=op):
      w2 = build(params, hist)
      pts = w2.apply(op + [list(pfx)])
      return pts, w2
    for choices, w2 in bfs.enumerate_choices(apply_fn):
      out['builds'] += 1
      full = op + [choices]
      k2 = w2.key()
      if params.get('probe'):
        w2.probe()
      out['children'].append({'op': full, 'key': k2, 'violations': _dedup(w2.viol), 'terminal': bool(_own(params, w2.viol))})
  return out


def _dedup(vs):
  seen = set()
  out = []
  for v in vs:
    if v['clause'] not in seen:
      seen.add(v['clause'])
      out.append(v)
  return out


def describe(params, hist):
  """Human-readable replay of a history."""
  w = build(params, [])
  lines = []
  for i, op in enumerate(hist):
    w.apply(op)
    heap = [(w.ep_idx(n.endpoint), (n.load - w.HB.Idle) if n.load < 0 else 'DOWN+%d' % (n.load), 'open' if w.is_open(n.channel) else 'closed')
            for n in w.heap_nodes()]
    lines.append('%2d %-28s heap(ep, load, state)=%s idle=%s members=%s' % (i, op, heap, w.idle_eps(), w.members))
    for v in w.viol:
      lines.append('   !! %s %s' % (v['clause'], v['message']))
    if w.viol:
      break
  return lines
