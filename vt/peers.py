"""Server-side peers for the simulated network.  A peer decodes what the client wrote, logs it, and
posts reply frames as *pending events*: it is the environment that decides when / whether they arrive.
"""
import struct

from thrift.protocol.TBinaryProtocol import TBinaryProtocol
from thrift.transport.TTransport import TMemoryBuffer
from thrift.Thrift import TMessageType, TApplicationException

from .refcodec import mux as M


class EchoHandler(object):
  """Handler for the test Hello service (and for vsvc): echoes its argument."""
  def __init__(self, log):
    self.log = log

  def hi(self, test_data):
    self.log.append(('hi', test_data))
    return 'echo:' + test_data


def thrift_process(processor_factory, handler, payload):
  """Decode one binary-protocol call with the generated Processor over the pure-Python protocol.
  Returns (reply payload or None for oneway, (name, type, seqid))."""
  itrans = TMemoryBuffer(payload)
  iprot = TBinaryProtocol(itrans)
  otrans = TMemoryBuffer()
  oprot = TBinaryProtocol(otrans)
  hdr = TBinaryProtocol(TMemoryBuffer(payload)).readMessageBegin()
  processor_factory(handler).process(iprot, oprot)
  out = otrans.getvalue()
  return (out if out else None), hdr


class ThriftPeer(object):
  """Framed binary-protocol Thrift server (one request at a time per connection, replies in order)."""
  ordered = True

  def __init__(self, net, conn, processor_factory, handler_factory, server_log):
    self.net = net
    self.conn = conn
    self.buf = bytearray()
    self.pf = processor_factory
    self.calls = []
    self.handler = handler_factory(self.calls)
    self.server_log = server_log     # shared list: dict per decoded request
    self.unanswered = 0

  def feed(self, data):
    self.buf += data
    while len(self.buf) >= 4:
      (n,) = struct.unpack('>i', bytes(self.buf[:4]))
      if n < 0 or len(self.buf) < 4 + n:
        break
      payload = bytes(self.buf[4:4 + n])
      del self.buf[:4 + n]
      ncalls = len(self.calls)
      try:
        reply, hdr = thrift_process(self.pf, self.handler, payload)
      except Exception as e:  # noqa
        self.server_log.append({'time': self.net.lp.now(), 'conn': self.conn.id, 'error': repr(e), 'raw': payload})
        continue
      call = self.calls[ncalls] if len(self.calls) > ncalls else (hdr[0], None)
      rec = {'time': self.net.lp.now(), 'conn': self.conn.id, 'method': call[0], 'arg': call[1], 'raw': payload,
             'seq': len(self.server_log), 'tag': None, 'addr': self.conn.addr}
      self.server_log.append(rec)
      if reply is not None:
        self.net.post('frame', self.conn, struct.pack('>i', len(reply)) + reply, {'for': call[1], 'n': rec['seq']})

  def on_client_close(self):
    pass


class MuxPeer(object):
  """ThriftMux server behind the independent codec; replies are independent frames (any order)."""
  ordered = False

  def __init__(self, net, conn, processor_factory, handler_factory, server_log, script=None):
    self.net = net
    self.conn = conn
    self.buf = bytearray()
    self.pf = processor_factory
    self.calls = []
    self.handler = handler_factory(self.calls)
    self.server_log = server_log
    self.outstanding = {}      # tag -> record (written by the client, not yet answered by this peer)
    self.discards = []
    self.frames = []           # every decoded frame: (type, tag)
    self.violations = []
    self.script = script or {}

  def feed(self, data):
    self.buf += data
    try:
      frames = M.split_frames(self.buf)
    except M.FrameError as e:
      self.violations.append(('bad-frame', str(e)))
      return
    for fr in frames:
      t, tag, body = M.decode_header(fr)
      self.frames.append((t, tag))
      now = self.net.lp.now()
      if t == M.T_PING:
        self.server_log.append({'time': now, 'conn': self.conn.id, 'ping': tag, 'seq': len(self.server_log)})
        if not self.script.get('no_ping_reply'):
          self.net.post('frame', self.conn, M.rping(tag), {'ping': tag})
      elif t == M.T_DISCARDED:
        try:
          d = M.decode_tdiscarded(body)
        except M.FrameError as e:
          self.violations.append(('bad-discard', str(e)))
          continue
        self.discards.append((now, d['tag'], d['reason']))
        self.server_log.append({'time': now, 'conn': self.conn.id, 'discard': d['tag'], 'frame_tag': tag,
                                'seq': len(self.server_log)})
        if self.script.get('ack_discards') and d['tag'] in self.outstanding:
          # the server acknowledges the discard: an Rdiscarded frame (type -66) carrying the discarded request's tag.  A server
          # that acknowledges has dropped the request: its reply, if still unsent, is never sent (the tag is free for the client
          # to use again once the acknowledgement arrives).  If the reply is already (partly) on the wire there is no acknowledgement.
          mine = [ev for ev in self.net.pending if ev.kind == 'frame' and ev.conn is self.conn and 'for' in (ev.meta or {})
                  and (ev.meta or {}).get('tag') == d['tag']]
          if mine and not any((ev.meta or {}).get('rest') for ev in mine):
            for ev in mine:
              self.net.pending.remove(ev)
            self.outstanding.pop(d['tag'], None)
            self.net.post('frame', self.conn, M.frame(-66, d['tag'], b''), {'tag': d['tag'], 'discard_ack': d['tag']})
      elif t == M.T_DISPATCH:
        rec = {'time': now, 'conn': self.conn.id, 'tag': tag, 'raw': fr, 'seq': len(self.server_log), 'addr': self.conn.addr,
               'dup_tag': tag in self.outstanding}
        try:
          d = M.decode_tdispatch(body)
          rec['contexts'] = d['contexts']
          ncalls = len(self.calls)
          reply, hdr = thrift_process(self.pf, self.handler, d['payload'])
          call = self.calls[ncalls] if len(self.calls) > ncalls else (hdr[0], None)
          rec['method'], rec['arg'] = call[0], call[1]
        except Exception as e:  # noqa
          rec['error'] = repr(e)
          reply = None
          self.violations.append(('undecodable-dispatch', repr(e)))
        self.server_log.append(rec)
        self.outstanding[tag] = rec
        if reply is not None:
          self.net.post('frame', self.conn, M.rdispatch(tag, M.OK, reply), {'for': rec.get('arg'), 'tag': tag, 'n': rec['seq']})
      else:
        self.server_log.append({'time': now, 'conn': self.conn.id, 'unknown_type': t, 'tag': tag, 'seq': len(self.server_log)})

  def answered(self, tag):
    self.outstanding.pop(tag, None)

  def on_client_close(self):
    pass
