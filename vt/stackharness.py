"""Full client stacks built by the public builders (Thrift / ThriftMux) over the simulated network,
driven by the schedule explorer (engine S).  Serves C01, C02, C12 (and the end-to-end parts of others).

One execution = world.reset(); build the client in a greenlet; then at every quiescent point the
scheduler picks one alternative:
   default order:  pending network events (creation order), next application operation, earliest timer
   deviations   :  refuse / stall a pending connect, drop a pending frame (peer silent for good), split a frame,
                   EOF / reset on a live connection that has had I/O since faults were last offered,
                   a later pending event before an earlier one, membership join/leave, a different random value
"""
import math
import os
import sys

from . import peers, simnet, stubs, vloop, world

EPS = 1e-6
RES = 0.01

HELLO_PATH = os.path.join(world.REPO, 'test', 'scales', 'thrift', 'gen_py')


def hello():
  if HELLO_PATH not in sys.path:
    sys.path.insert(0, HELLO_PATH)
  from hello import Hello
  return Hello


def tick_up(d):
  return math.ceil(d / RES - 1e-7) * RES


class Call(object):
  @property
  def label(self):
    return self.arg if len(self.arg) < 60 else self.arg[:16] + '...(%d chars)' % len(self.arg)

  def __init__(self, idx, arg, timeout):
    self.idx = idx
    self.arg = arg
    self.timeout = timeout
    self.t_issue = None
    self.ar = None
    self.first = None           # (time, kind, value/exception, event index) at first completion
    self.server_seen_at_done = None
    self.issue_error = None
    self.issued_before_open = None


class StackWorld(object):
  def __init__(self, params):
    import gevent
    self.p = params
    self.lp = vloop.loop()
    self.net = simnet.new_net()
    self.net.max_recv, self.net.max_send = params.get('max_recv'), params.get('max_send')
    self.net.connect_delay = params.get('connect_delay', 0)
    self.server_log = []
    self.viol = []
    self.calls = []
    self.ops = list(params['ops'])       # application operations still to be issued, in order
    self.client = None
    self.horizon = vloop.EPOCH + params.get('horizon', 1.6)
    self.events = 0
    self.membership = list(params.get('membership', []))    # pending membership events: ('leave', i) / ('join', i)
    self.closed = False
    self.stalls = []      # (t_before, t_after) of preemptions: the loop was busy while virtual time passed
    H = hello()
    self.H = H
    world.SHIMS['aperture'].randint_domain = lambda a, b: [a] if b - a > 8 else list(range(a, b + 1))
    world.SHIMS['thriftmux'].randint_domain = lambda a, b: [a]
    if params.get('tag_jump'):
      world.tag_jump(*params['tag_jump'])
    stack = params['stack']
    n = params.get('endpoints', 1)
    self.addrs = [('h%d' % i, 1000 + i) for i in range(n)]
    for (h, pt) in self.addrs:
      if stack == 'thrift':
        self.net.add_endpoint(h, pt, lambda net, c: peers.ThriftPeer(net, c, H.Processor, peers.EchoHandler, self.server_log))
      else:
        self.net.add_endpoint(h, pt, lambda net, c: peers.MuxPeer(net, c, H.Processor, peers.EchoHandler, self.server_log,
                                                                  params.get('peer_script')))
    for i in params.get('down_at_start', []):
      self.net.set_endpoint(self.addrs[i], False, params.get('down_mode', 'refuse'))
    if stack == 'thrift':
      from scales.thrift.builder import Thrift
      b = Thrift.NewBuilder(H.Iface)
      if params.get('pool'):
        from scales.constants import SinkRole
        from scales.pool.watermark import WatermarkPoolSink
        b.ReplaceRole(SinkRole.Pool, WatermarkPoolSink.Builder(**params['pool']))
    else:
      from scales.thriftmux.builder import ThriftMux
      b = ThriftMux.NewBuilder(H.Iface, params.get('client_id', 'cid'))
      if params.get('mux_pool') == 'singleton':
        # a singleton pool in front of the multiplexed transport (the composition SingletonPoolSink is meant for)
        from scales.pool.singleton import SingletonPoolSink
        b.InsertSink(len(b._stack) - 1, SingletonPoolSink.Builder())
    b.SetUri('tcp://' + ','.join('%s:%d' % a for a in self.addrs))
    if params.get('scripted_serverset'):
      Prov = stubs.make_provider_class()
      from scales.loadbalancer.zookeeper import Endpoint
      self.ssp = Prov([stubs.Server(Endpoint(h, pt)) for (h, pt) in self.addrs[:params.get('initial_members', n)]])
      b.SetServerSetProvider(self.ssp)
    b.SetTimeout(params.get('timeout', 0.5025))
    if params.get('open_timeout', 'default') != 'default':
      b.SetOpenTimeout(params['open_timeout'])
    self.builder = b
    for op in params.get('ops', ()):
      if op[0] == 'at':
        self.lp.timer(op[1]).start(lambda: None)       # an alarm clock of the application: lets virtual time stop there
    self.build_g = gevent.spawn(b.Build)
    self.lp.monitor = self.monitor

  def v(self, clause, msg, **sig):
    self.viol.append({'clause': clause, 'message': msg, 'sig': sig})

  # ---- monitors (after every callback) ---------------------------------------------------------------
  def monitor(self):
    self.events += 1
    now = self.lp.now()
    for c in self.calls:
      ar = c.ar
      if ar is None or not ar.ready():
        continue
      ok = ar.successful()
      cur = ('ok', ar.value) if ok and ar.exception is None else (('fail', ar.exception) if not ok else ('both', ar.value, ar.exception))
      if c.first is None:
        c.first = (now, cur, self.events)
        c.server_seen_at_done = len(self.server_log)
        c.writes_at_done = len(self.net.write_log)
        c.conns_open_at_done = [x.id for x in self.net.live_conns() if not x.reset and not x.eof]
        c.unanswered_at_done = dict((x.id, set(getattr(x.peer, 'outstanding', {}).keys())) for x in self.net.live_conns())
      else:
        f = c.first[1]
        same = f[0] == cur[0] and all(a is b or a == b for a, b in zip(f[1:], cur[1:]))
        if not same and not getattr(c, 'flagged', False):
          c.flagged = True
          self.v('C01.changed-after-completion', 'call %d(%r) completed with %r at +%.4f and changed to %r at +%.4f'
                 % (c.idx, c.label, self._show(f), c.first[0] - vloop.EPOCH, self._show(cur), now - vloop.EPOCH))

  @staticmethod
  def _show(cur):
    if cur[0] == 'ok':
      return 'value %r' % (cur[1],)
    if cur[0] == 'fail':
      return 'error %s' % type(cur[1]).__name__
    return 'value %r AND error %s' % (cur[1], type(cur[2]).__name__)

  def due_eff(self, due):
    """If the loop was stalled (preempted) across the due time, the call cannot complete before the stall ends."""
    for (a, b) in self.stalls:
      if a - EPS <= due <= b + EPS:
        due = max(due, b)
    return due

  def at_quiescence(self):
    now = self.lp.now()
    if self.client is None and self.build_g.dead:
      if self.build_g.successful():
        self.client = self.build_g.value
      elif not getattr(self, '_build_failed', False):
        self._build_failed = True
        self.v('STACK.build-failed', 'Build() raised %r' % (self.build_g.exception,))
    for c in self.calls:
      if c.ar is not None and not c.ar.ready() and c.timeout:
        due = self.due_eff(tick_up(c.t_issue + c.timeout))
        if now > due + EPS and not getattr(c, 'late_flagged', False):
          c.late_flagged = True
          self.v('C01.late', 'call %d(%r) issued at +%.4f with timeout %.4f is still pending at +%.4f (due by +%.4f)'
                 % (c.idx, c.label, c.t_issue - vloop.EPOCH, c.timeout, now - vloop.EPOCH, due - vloop.EPOCH),
                 issued_before_open=bool(c.issued_before_open), stack=self.p['stack'])

  # ---- alternatives ----------------------------------------------------------------------------------------
  def alternatives(self):
    alts = []
    net = self.net
    lp = self.lp
    evs = net.enabled_events()
    for ev in evs:
      alts.append((ev.label(), 0, lambda ev=ev: self._fire(ev, 'ok')))
    for c in net.live_conns():
      if c.write_blocked and 'block-long' not in self.p.get('faults', ()):
        alts.append(('unblock-writes c%d' % c.id, 0, lambda c=c: self._inject(c, 'unblock-writes')))
    if self.ops and self._op_enabled(self.ops[0]):
      op = self.ops[0]
      alts.append(('app %s' % (op,), 0, self._do_next_op))
    t = lp.next_timer()
    if t is not None and t.at <= self.horizon:
      alts.append(('timer@%.6f' % (t.at - vloop.EPOCH), 0, lambda t=t: lp.fire(t)))
    if not alts:
      return alts
    # ---- deviations only ----
    faults = self.p.get('faults', ())
    for ev in evs:
      if ev.kind == 'connect':
        if 'refuse' in faults:
          alts.append(('refuse c%d' % ev.conn.id, 1, lambda ev=ev: self._fire(ev, 'refuse')))
        if 'stall' in faults:
          alts.append(('stall-connect c%d' % ev.conn.id, 1, lambda ev=ev: self._fire(ev, 'stall')))
      elif ev.kind == 'frame':
        if 'drop' in faults:
          alts.append(('drop-and-go-silent c%d' % ev.conn.id, 1, lambda ev=ev: self._fire(ev, 'drop')))
        if 'split' in faults and len(ev.data) > 4 and not (ev.meta or {}).get('rest'):
          for k in (2, len(ev.data) - 1):
            alts.append(('split%d %s' % (k, ev.label()), 1, lambda ev=ev, k=k: self._fire(ev, ('split', k))))
    for c in net.live_conns():
      if c.activity != c.offered_at and not c.eof and not c.reset and not c.stalled:
        if 'eof' in faults:
          alts.append(('eof c%d' % c.id, 1, lambda c=c: self._inject(c, 'eof')))
        if 'reset' in faults:
          alts.append(('reset c%d' % c.id, 1, lambda c=c: self._inject(c, 'reset')))
        if 'block' in faults and not c.write_blocked and not getattr(c, 'was_blocked', False):
          alts.append(('block-writes c%d' % c.id, 1, lambda c=c: (setattr(c, 'was_blocked', True), self._inject(c, 'block-writes'))))
        if 'block-long' in faults and not c.write_blocked and not getattr(c, 'was_blocked', False):
          alts.append(('block-writes-after-6-bytes-for-33s c%d' % c.id, 1,
                       lambda c=c: (setattr(c, 'was_blocked', True), self._inject(c, 'block-writes-partial-long'))))
        if 'block-partial' in faults and not c.write_blocked and not getattr(c, 'was_blocked', False):
          alts.append(('block-writes-after-6-bytes c%d' % c.id, 1,
                       lambda c=c: (setattr(c, 'was_blocked', True), self._inject(c, 'block-writes-partial'))))
    for c in net.live_conns():
      c.offered_at = c.activity
    for i, m in enumerate(self.membership):
      if self.client is not None:
        alts.append(('%s ep%d' % m, 1, lambda i=i: self._member(i)))
    return alts

  def _fire(self, ev, variant):
    self.net.fire(ev, variant)
    if ev.kind == 'frame' and variant == 'ok' and ev.meta and ev.meta.get('tag') is not None and hasattr(ev.conn.peer, 'answered'):
      ev.conn.peer.answered(ev.meta['tag'])

  def _inject(self, c, kind):
    self.net.inject(c, kind)

  def _member(self, i):
    import gevent
    from scales.loadbalancer.zookeeper import Endpoint
    kind, e = self.membership.pop(i)
    srv = stubs.Server(Endpoint(*self.addrs[e]))
    gevent.spawn(self.ssp.on_leave if kind == 'leave' else self.ssp.on_join, srv)

  def _op_enabled(self, op):
    if op[0] in ('call', 'close', 'burst'):
      return self.client is not None
    if op[0] == 'at':
      return self.lp.now() >= vloop.EPOCH + op[1] - EPS       # the application does nothing until then
    return True

  def _do_next_op(self):
    op = self.ops.pop(0)
    if op[0] == 'call':
      arg = '<<%s>>' % op[1]
      if len(op) > 3 and op[3] == 'big':
        arg += 'x' * 70000            # a request larger than 64 KB
      c = Call(len(self.calls), arg, op[2] if len(op) > 2 else self.p.get('timeout', 0.5025))
      c.t_issue = self.lp.now()
      # the execution must run until this call's deadline has passed
      self.horizon = max(self.horizon, tick_up(c.t_issue + c.timeout) + 0.1)
      d = self.client._dispatcher
      c.issued_before_open = not (d._open_ar is not None and d._open_ar.ready())
      try:
        if len(op) > 2:
          c.ar = d.DispatchMethodCall('hi', (c.arg,), {}, timeout=op[2])
        else:
          c.ar = self.client.hi_async(c.arg)
      except Exception as e:  # noqa
        c.issue_error = e
      self.calls.append(c)
    elif op[0] == 'close':
      self.closed = True
      self.client.DispatcherClose()
    elif op[0] == 'at':
      pass
    elif op[0] == 'burst':
      # the application issues the next n calls back to back, without letting the loop run in between
      for _ in range(op[1]):
        if self.ops:
          self._do_next_op()

  # ---- end of execution -------------------------------------------------------------------------------------
  def finish(self):
    from scales.message import TimeoutError as ScalesTimeout
    self.lp.monitor = None
    now = self.lp.now()
    for c in self.calls:
      if c.issue_error is not None:
        self.v('C01.issue-raised', 'issuing call %d raised %r' % (c.idx, c.issue_error))
        continue
      if c.first is None:
        if not self.closed:
          self.v('C01.never-completed', 'call %d(%r) issued at +%.4f (timeout %.4f) never completed by the horizon +%.4f'
                 % (c.idx, c.label, c.t_issue - vloop.EPOCH, c.timeout, now - vloop.EPOCH),
                 issued_before_open=bool(c.issued_before_open), stack=self.p['stack'])
        continue
      t_done, cur, _ = c.first
      if cur[0] == 'ok':
        if cur[1] != 'echo:' + c.arg:
          self.v('C02.wrong-reply', 'call %d(%r) returned %r' % (c.idx, c.label, cur[1]), stack=self.p['stack'])
          self.v('C01.not-own-reply', 'call %d(%r) completed with %r, which is not the server\'s reply to that call'
                 % (c.idx, c.label, cur[1]), stack=self.p['stack'])
      else:
        exc = cur[1] if cur[0] == 'fail' else cur[2]
        if isinstance(exc, ScalesTimeout):
          if t_done < c.t_issue + c.timeout - EPS:
            self.v('C01.early-timeout', 'call %d(%r) issued at +%.4f with timeout %.4f got TimeoutError at +%.4f, %.4f s early'
                   % (c.idx, c.label, c.t_issue - vloop.EPOCH, c.timeout, t_done - vloop.EPOCH, c.t_issue + c.timeout - t_done),
                   issued_before_open=bool(c.issued_before_open), stack=self.p['stack'])
          # C12: nothing of this call may be transmitted after the caller saw the timeout
          needle = c.arg.encode('utf-8')
          later = [w for w in self.net.write_log[c.writes_at_done:] if needle in w[2]]
          if len(needle) > 60000:
            # a large request may be handed to the socket in pieces: any later piece of its body counts (only one call is that large)
            later = [w for w in self.net.write_log[c.writes_at_done:] if needle in w[2] or b'x' * 4096 in w[2]]
          if later:
            self.v('C12.sent-after-timeout', 'call %d(%r) got TimeoutError at +%.4f; its request was written to connection c%d at +%.4f afterwards'
                   % (c.idx, c.label, t_done - vloop.EPOCH, later[0][1], later[0][0] - vloop.EPOCH), stack=self.p['stack'])
          if self.p['stack'] == 'mux':
            sent = [r for r in self.server_log[:c.server_seen_at_done] if r.get('arg') == c.arg]
            for r in sent:
              conn = self.net.conns[r['conn']]
              still_open = r['conn'] in c.conns_open_at_done and not conn.reset and not conn.eof and not conn.client_closed
              if still_open and r['tag'] in c.unanswered_at_done.get(r['conn'], ()):
                later_discards = [x for x in self.server_log[r['seq'] + 1:] if x.get('conn') == r['conn'] and x.get('discard') == r['tag']]
                if not later_discards:
                  self.v('C12.no-discard', 'call %d(%r) timed out at +%.4f after its request (tag %d) had been written to open '
                         'connection c%d; no Tdiscarded naming tag %d reached the server (discards seen: %r)'
                         % (c.idx, c.label, t_done - vloop.EPOCH, r['tag'], r['conn'], r['tag'], [d[1] for d in conn.peer.discards]))
      if c.timeout and t_done > self.due_eff(tick_up(c.t_issue + c.timeout)) + EPS:
        self.v('C01.late', 'call %d(%r) issued at +%.4f with timeout %.4f completed at +%.4f (due by +%.4f)'
               % (c.idx, c.label, c.t_issue - vloop.EPOCH, c.timeout, t_done - vloop.EPOCH,
                  tick_up(c.t_issue + c.timeout) - vloop.EPOCH), issued_before_open=bool(c.issued_before_open), stack=self.p['stack'])
    # C02: the server saw only what callers passed, each at most once per transmission
    args = [c.arg for c in self.calls]
    for r in self.server_log:
      if 'method' in r:
        if r['method'] != 'hi' or r['arg'] not in args:
          self.v('C02.server-saw-other', 'server decoded %r(%r), callers passed %r' % (r['method'], r['arg'], args))
      elif 'unknown_type' in r:
        self.v('C02.server-saw-garbage', 'on connection c%d the server received a frame of unknown type %r (tag %r): not something any '
               'caller or the transport sends' % (r['conn'], r['unknown_type'], r.get('tag')))
      elif 'error' in r and 'raw' in r:
        self.v('C02.server-saw-garbage', 'on connection c%d the server received a frame that is not a request any caller passed (%s); '
               'first bytes %r' % (r['conn'], r['error'][:80], bytes(r['raw'][:24])))

  def outcome(self):
    from scales.message import TimeoutError as ScalesTimeout
    out = []
    for c in self.calls:
      if c.first is None:
        out.append('%s:pending' % c.label)
      else:
        cur = c.first[1]
        if cur[0] == 'ok':
          out.append('%s:ok@%.3f' % (c.label, c.first[0] - vloop.EPOCH))
        else:
          exc = cur[1] if cur[0] == 'fail' else cur[2]
          inner = getattr(exc, 'inner_exception', None)
          out.append('%s:%s/%s@%.3f' % (c.label, type(exc).__name__, type(inner).__name__ if inner is not None else '', c.first[0] - vloop.EPOCH))
    out.append('srv=%s' % ','.join(str(r.get('arg', r.get('discard', 'p')))[:24] for r in self.server_log))
    return ' '.join(out)


def run_exec(params, prefix, expect):
  """One execution (engine S exec function)."""
  world.reset()
  ch = world.Chooser(prefix, expect)
  w = StackWorld(params)
  world.set_chooser(ch)
  trace = []
  steps = 0
  lp = vloop.loop()
  preempts_left = params.get('max_preempt', 0)
  try:
    while True:
      if preempts_left > 0:
        # run the ready queue one callback at a time; between two callbacks the earliest timer may expire first
        # (a preemption: the callbacks of a real loop take time, and libev runs an expired timer before them)
        while not lp.quiescent():
          t = lp.next_timer()
          if preempts_left > 0 and t is not None and t.at <= w.horizon and len(lp._ready) > 0:
            i = ch.choose(['next-callback', 'preempt: timer@%.6f expires now' % (t.at - vloop.EPOCH)], 'preempt')
            if i == 1:
              preempts_left -= 1
              trace.append('PREEMPT timer@%.6f before %d pending callbacks' % (t.at - vloop.EPOCH, len(lp._ready)))
              w.stalls.append((lp.now(), max(lp.now(), t.at)))
              lp.fire(t, front=True)
          vloop.run_ready(budget=1)
      vloop.run_ready()
      w.at_quiescence()
      alts = w.alternatives()
      if not alts:
        break
      if len(alts) == 1:
        i = 0
      else:
        i = ch.choose([a[0] for a in alts], 'env')
      trace.append(alts[i][0])
      alts[i][2]()
      steps += 1
      if steps > params.get('max_steps', 400):
        w.v('STACK.runaway', 'more than %d scheduling steps' % steps)
        break
    vloop.run_ready()
    w.at_quiescence()
    w.finish()
  finally:
    world.set_chooser(None)
  errs = vloop.loop().errors
  seen = set()
  viol = []
  for v in w.viol:
    if v['clause'] not in seen:
      seen.add(v['clause'])
      v = dict(v)
      v['replay'] = {'params': params, 'choices': ch.choices, 'trace': trace}
      viol.append(v)
  return {'points': [(p.labels, p.chosen, p.costs) for p in ch.points], 'violations': viol,
          'outcome': w.outcome(), 'trace': trace, 'errors': [(e[1], e[2]) for e in errs[:5]]}
