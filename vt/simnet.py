"""Simulated sockets and peers.  scales.scales_socket.gsocket is rebound to FakeSock, so ScalesSocket,
VarzSocketWrapper, SocketTransportSinkProvider and both transports run unmodified.

The environment (class Net) owns every pending event:
  connect(conn)            a connect() waiting for its outcome
  frame(conn, bytes, meta) bytes a peer wants to send to the client
Blocking socket calls block exactly as gevent's own sockets do (hub.wait(watcher)), so gevent.Timeout
and kill interrupt them faithfully.  Nothing happens until the scheduler picks an event.
"""
import errno
import socket as _real_socket

from . import vloop


class SockError(OSError):
  pass


def _err(code, what):
  return _real_socket.error(code, what)


class Event(object):
  __slots__ = ('kind', 'conn', 'data', 'meta', 'seq', 'not_before')

  def __init__(self, kind, conn, data=None, meta=None, seq=0):
    self.kind = kind
    self.conn = conn
    self.data = data
    self.meta = meta
    self.seq = seq
    self.not_before = None

  def label(self):
    if self.kind == 'connect':
      return 'connect c%d' % self.conn.id
    return 'frame c%d %s' % (self.conn.id, self.meta if self.meta is not None else len(self.data))


class Conn(object):
  def __init__(self, net, cid, addr):
    self.net = net
    self.id = cid
    self.addr = addr
    self.state = 'new'       # new, connecting, established, refused, closed
    self.rx = bytearray()
    self.eof = False
    self.reset = False
    self.stalled = False
    self.write_blocked = False
    self.peer = None
    self.watcher = vloop.FakeWatcher(net.lp)
    self.waiters = []
    self.client_closed = False
    self.activity = 0        # I/O calls made by the client on this connection
    self.offered_at = -1     # activity value when faults were last offered
    self.sent = bytearray()
    self.first_fault_time = None
    self.established_at = None
    self.io_log = []         # (op, n) for fault enumeration
    self.fail_io_at = None   # index into io_log at which the next I/O raises (fault enumeration)
    self.fail_kind = None

  def wake(self):
    # every blocked operation on this connection (a reader and a writer can be blocked at the same time) re-checks
    ws = list(self.waiters)
    writers = [w for w in ws if getattr(w, 'kind', '') == 'send']
    if len(writers) > 1:
      # two greenlets are blocked writing to the same socket: which one the kernel lets through first is not defined
      from . import world
      if world.chooser() is not None:
        i = world.choose(['c%d: blocked writer #%d proceeds first' % (self.id, k) for k in range(len(writers))], 'rand')
        first = writers[i]
        ws = [first] + [w for w in ws if w is not first]
    for w in ws:
      w.trigger()

  def mark_fault(self):
    if self.first_fault_time is None:
      self.first_fault_time = self.net.lp.now()
      self.net.fault_log.append((self.net.lp.now(), self.addr, self.id))


class Endpoint(object):
  def __init__(self, addr, peer_factory):
    self.addr = addr
    self.peer_factory = peer_factory
    self.up = True
    self.connect_mode = 'refuse'   # what a connect gets while the endpoint is down: 'refuse' | 'stall'


class Net(object):
  def __init__(self):
    self.lp = vloop.loop()
    self.eps = {}
    self.conns = []
    self.pending = []
    self.seq = 0
    self.fault_log = []        # (time, addr, conn id) first observation of a fault by client I/O
    self.connect_log = []      # (time, addr, conn id, outcome)
    self.io_trace = []         # global (conn id, op) sequence, for fault enumeration
    self.io_fault = None       # (global io index, kind)
    self.io_count = 0
    self.write_log = []        # every client write call, logged when the call is made: (time, conn id, bytes)

  def add_endpoint(self, host, port, peer_factory):
    ep = Endpoint((host, port), peer_factory)
    self.eps[(host, port)] = ep
    return ep

  def post(self, kind, conn, data=None, meta=None):
    self.seq += 1
    ev = Event(kind, conn, data, meta, self.seq)
    self.pending.append(ev)
    delay = getattr(self, 'reply_delay', 0)
    if kind == 'frame' and delay and not (meta or {}).get('ping'):
      # server think time: the reply cannot arrive before now + delay (a no-op loop timer lets time get there)
      ev.not_before = self.lp.now() + delay
      self.lp.timer(delay).start(lambda: None)
    return ev

  # ---- what the scheduler can do ------------------------------------------------------------------
  def enabled_events(self):
    """Pending events that may happen now, in creation order.  On an ordered connection (serial peer, or while
    the remainder of a split frame is outstanding) only the oldest frame is enabled."""
    out = []
    first_seen = set()
    has_rest = set(ev.conn.id for ev in self.pending if ev.kind == 'frame' and (ev.meta or {}).get('rest'))
    for ev in self.pending:
      c = ev.conn
      if c.client_closed or c.stalled:
        continue
      if ev.not_before is not None and ev.not_before > self.lp.now() + 1e-9:
        continue
      if ev.kind == 'frame':
        if c.peer is None or c.peer.ordered or c.id in has_rest:
          if c.id in first_seen:
            continue
          first_seen.add(c.id)
      out.append(ev)
    return out

  def purge(self):
    self.pending = [ev for ev in self.pending if not ev.conn.client_closed]

  def fire(self, ev, variant='ok'):
    self.pending.remove(ev)
    c = ev.conn
    if ev.kind == 'connect':
      ep = self.eps.get(c.addr)
      if variant == 'ok' and ep is not None and ep.up:
        c.state = 'established'
        c.established_at = self.lp.now()
        c.peer = ep.peer_factory(self, c)
        self.connect_log.append((self.lp.now(), c.addr, c.id, 'ok'))
        c.wake()
      elif variant == 'stall':
        c.stalled = True
        self.connect_log.append((self.lp.now(), c.addr, c.id, 'stall'))
        kt = getattr(self, 'kernel_connect_timeout', None)
        if kt:
          # the kernel gives up on an unanswered SYN after a while (ETIMEDOUT)
          def give_up(c=c):
            if c.state == 'connecting' and not c.client_closed:
              c.state = 'refused'
              c.mark_fault()
              c.wake()
          self.lp.timer(kt).start(give_up)
      else:
        c.state = 'refused'
        self.connect_log.append((self.lp.now(), c.addr, c.id, 'refused'))
        c.mark_fault()
        c.wake()
    elif ev.kind == 'frame':
      if variant == 'ok':
        c.rx += ev.data
        c.wake()
      elif isinstance(variant, tuple) and variant[0] == 'split':
        k = variant[1]
        c.rx += ev.data[:k]
        self.seq += 1
        meta = dict(ev.meta or {})
        meta['rest'] = True
        rest = Event('frame', c, ev.data[k:], meta, self.seq)
        self.pending.insert(0, rest)
        c.wake()
      elif variant == 'drop':
        c.stalled = True

  def inject(self, conn, kind):
    if kind == 'eof':
      conn.eof = True
    elif kind == 'reset':
      conn.reset = True
    elif kind == 'stall':
      conn.stalled = True
    elif kind == 'block-writes':
      conn.write_blocked = True
      conn.block_after = 0
    elif kind == 'block-writes-partial':
      conn.write_blocked = True
      conn.block_after = 6
    elif kind == 'block-writes-partial-long':
      # the peer stops draining for 33 s after 6 more bytes (long enough for periodic traffic such as pings to come due)
      conn.write_blocked = True
      conn.block_after = 6

      def unblock(c=conn):
        c.write_blocked = False
        c.wake()
      self.lp.timer(33.0).start(unblock)
    elif kind == 'unblock-writes':
      conn.write_blocked = False
    conn.wake()

  def set_endpoint(self, addr, up, connect_mode='refuse'):
    ep = self.eps[addr]
    ep.up = up
    ep.connect_mode = connect_mode
    if not up:
      for c in self.conns:
        if c.addr == addr and not c.client_closed and c.state == 'established':
          c.reset = True
          c.wake()

  def live_conns(self):
    return [c for c in self.conns if c.state == 'established' and not c.client_closed]


_NET = None


def set_net(net):
  global _NET
  _NET = net


def net():
  return _NET


class FakeSock(object):
  """Stands in for gevent.socket.socket."""
  def __init__(self, family=None, type=None, proto=0):
    self.net = _NET
    self.conn = None
    self.closed = False

  # -- helpers
  def _io(self, op, n=0):
    """Called at the start of every client I/O call: fault enumeration hook."""
    net = self.net
    idx = net.io_count
    net.io_count += 1
    net.io_trace.append((self.conn.id if self.conn else -1, op))
    if self.conn is not None:
      self.conn.activity += 1
    if net.io_fault is not None and net.io_fault[0] == idx:
      return net.io_fault[1]
    faults = getattr(net, 'io_faults', None)
    if faults:
      return faults.get(idx)
    return None

  def _wait(self, c, kind='recv'):
    w = vloop.FakeWatcher(self.net.lp)
    w.kind = kind
    c.waiters.append(w)
    try:
      vloop.hub().wait(w)
    finally:
      c.waiters.remove(w)

  def connect(self, addr):
    net = self.net
    host = addr[0]
    if isinstance(host, (bytes, bytearray)):
      host = bytes(host).decode('idna')      # a real socket accepts a bytes host name
    c = Conn(net, len(net.conns), (host, addr[1]))
    net.conns.append(c)
    self.conn = c
    fk = self._io('connect')
    c.state = 'connecting'
    if fk in ('exception', 'refusal'):
      c.state = 'refused'
      net.connect_log.append((net.lp.now(), c.addr, c.id, 'refused'))
      c.mark_fault()
      raise _err(errno.ECONNREFUSED, 'Connection refused')
    if fk == 'timeout-noerrno':
      # what socket.create_connection raises when the connect times out: an OSError subclass whose errno is None
      import socket as _socket
      c.state = 'refused'
      net.connect_log.append((net.lp.now(), c.addr, c.id, 'refused'))
      c.mark_fault()
      raise _socket.timeout('timed out')
    if fk in ('silence', 'eof'):
      c.stalled = True
    ep = net.eps.get(c.addr)
    if ep is None:
      c.state = 'refused'
      c.mark_fault()
      raise _err(errno.ECONNREFUSED, 'Connection refused (no such endpoint)')
    ev = net.post('connect', c)
    delay = getattr(net, 'connect_delay', 0)
    if delay:
      # network latency: the outcome cannot arrive before now + delay (a no-op loop timer lets time get there)
      ev.not_before = net.lp.now() + delay
      net.lp.timer(delay).start(lambda: None)
    while c.state == 'connecting':
      if self.closed:
        raise _err(errno.EBADF, 'Bad file descriptor')
      self._wait(c)
    if c.state != 'established':
      raise _err(errno.ECONNREFUSED, 'Connection refused')

  def _check_usable(self):
    c = self.conn
    if self.closed or c is None:
      raise _err(errno.EBADF, 'Bad file descriptor')
    if c.state != 'established':
      raise _err(errno.ENOTCONN, 'Transport endpoint is not connected')

  def sendall(self, data, flags=0):
    fk = self._io('send', len(data))
    self._check_usable()
    c = self.conn
    if fk in ('exception', 'eof', 'refusal'):
      c.reset = True
    if fk == 'silence':
      c.stalled = True
    if c.reset:
      c.mark_fault()
      raise _err(errno.ECONNRESET, 'Connection reset by peer')
    self.net.write_log.append((self.net.lp.now(), c.id, bytes(data)))
    data = bytes(data)
    if c.write_blocked and getattr(c, 'block_after', 0) > 0:
      # the kernel buffer takes the first few bytes, then it is full: a partial write
      k = min(c.block_after, len(data))
      head, data = data[:k], data[k:]
      c.block_after -= k
      c.sent += head
      self.net.on_client_bytes(c, head)
      if c.peer is not None:
        c.peer.feed(head)
    while c.write_blocked and not self.closed and not c.reset:
      self._wait(c, 'send')      # back-pressure: the kernel buffer is full
    if self.closed:
      raise _err(errno.EBADF, 'Bad file descriptor')
    if c.reset:
      c.mark_fault()
      raise _err(errno.ECONNRESET, 'Connection reset by peer')
    c.sent += data
    self.net.on_client_bytes(c, data)
    if c.eof:
      # peer has closed: bytes vanish (the kernel accepts them; the error surfaces on a later call)
      return None
    if c.peer is not None:
      c.peer.feed(data)       # a peer that has gone silent still receives
    return None

  def send(self, data, flags=0):
    # a scripted list of "how many bytes the kernel takes this time" models short writes of send()
    script = getattr(self.net, 'send_script', None)
    if script:
      k = max(1, min(script.pop(0), len(data)))
      self.sendall(bytes(data[:k]))
      return k
    if getattr(self.net, 'max_send', None):
      k = min(self.net.max_send, len(data))       # max_send: send() accepts at most that many bytes per call (sendall loops)
      self.sendall(bytes(data[:k]))
      return k
    self.sendall(data)
    return len(data)

  def _read(self, n):
    fk = self._io('recv', n)
    self._check_usable()
    c = self.conn
    if fk == 'exception' or fk == 'refusal':
      c.reset = True
    elif fk == 'eof':
      c.eof = True
      del c.rx[:]
    elif fk == 'silence':
      c.stalled = True
      del c.rx[:]
    while True:
      if self.closed:
        raise _err(errno.EBADF, 'Bad file descriptor')
      if c.reset:
        c.mark_fault()
        raise _err(errno.ECONNRESET, 'Connection reset by peer')
      if c.rx:
        k = min(n, len(c.rx), getattr(self.net, 'max_recv', None) or n)      # max_recv: the kernel hands out at most that many bytes per call
        out = bytes(c.rx[:k])
        del c.rx[:k]
        return out
      if c.eof:
        c.mark_fault()
        return b''
      self._wait(c)

  def recv(self, n, flags=0):
    return self._read(n)

  def recv_into(self, buf, nbytes=0, flags=0):
    n = nbytes or len(buf)
    data = self._read(n)
    buf[:len(data)] = data
    return len(data)

  def setsockopt(self, *a):
    pass

  def settimeout(self, *a):
    pass

  def close(self):
    if self.closed:
      return
    self.closed = True
    c = self.conn
    if c is not None:
      c.client_closed = True
      if c.peer is not None:
        c.peer.on_client_close()
      c.wake()
      self.net.purge()

  def fileno(self):
    return -1


class _SocketShim(object):
  """Replaces the `socket` module inside scales.scales_socket: no DNS, same constants and error type."""
  error = _real_socket.error
  AF_UNSPEC = _real_socket.AF_UNSPEC
  AF_INET = _real_socket.AF_INET
  SOCK_STREAM = _real_socket.SOCK_STREAM
  AI_PASSIVE = _real_socket.AI_PASSIVE
  AI_ADDRCONFIG = _real_socket.AI_ADDRCONFIG
  IPPROTO_TCP = _real_socket.IPPROTO_TCP
  TCP_NODELAY = _real_socket.TCP_NODELAY

  @staticmethod
  def getaddrinfo(host, port, *a):
    return [(_real_socket.AF_INET, _real_socket.SOCK_STREAM, 6, '', (host, port))]


_installed = False


def install():
  """Rebind the socket seam of scales (idempotent)."""
  global _installed
  import scales.scales_socket as ss
  ss.gsocket = FakeSock
  ss.socket = _SocketShim
  _installed = True


def new_net():
  install()
  n = Net()
  n.on_client_bytes = lambda c, data: None
  set_net(n)
  return n
