"""Engine S: stateless, deviation-bounded exploration of schedules on the real code.

An execution is identified by its choice sequence.  Index 0 at every choice point is the default
(prompt in-order network, next application operation, earliest timer, first random value); any other
index is a deviation.  explore() runs the default execution, then recursively every alternative at
every later choice point while the cumulative deviation cost stays within the bound (the CHESS
iterative context-bounding shape).  Replaying a prefix must reproduce the labels recorded by the
parent execution at every replayed point; otherwise world.Divergence is raised (harness error).

Executions run in spawned worker processes (never fork after gevent is imported).  The exec
function lives in a check module:  fn(params, prefix, expect) -> dict with keys
  points   : [(labels, chosen, costs-or-None)]
  violations : [ {clause, message, sig, ...} ]
  outcome  : str   canonical summary of what was observed (to count distinct outcomes)
  trace    : [label]   (optional, for samples)
"""
import hashlib
import importlib
import multiprocessing as mp
import os
import random
import time


def _cost(point, alt):
  costs = point[2]
  if costs is not None:
    return costs[alt]
  return 0 if alt == 0 else 1


class Agg(object):
  def __init__(self):
    self.executions = 0
    self.nodes = 0            # choice-point nodes first visited (beyond the replayed prefix)
    self.edges = 0            # choices taken beyond the replayed prefix
    self.max_points = 0
    self.outcomes = set()
    self.violations = []
    self.samples = []
    self.by_dev = {}
    self.capped = False
    self.kinds = {}

  def add_exec(self, res, prefix_len, used):
    self.executions += 1
    pts = res['points']
    new = max(0, len(pts) - prefix_len)
    self.nodes += new + 1      # + the terminal state of this execution
    self.edges += new + (1 if prefix_len else 0)
    self.max_points = max(self.max_points, len(pts))
    self.by_dev[used] = self.by_dev.get(used, 0) + 1
    if len(self.outcomes) < 2000000:
      self.outcomes.add(hashlib.blake2b(res.get('outcome', '').encode(), digest_size=8).digest())
    for v in res.get('violations', ()):
      if len(self.violations) < 200:
        self.violations.append(v)
    if len(self.samples) < 3 and used == min(2, max(self.by_dev)):
      self.samples.append({'deviations': used, 'trace': res.get('trace', [])[:60],
                           'outcome': res.get('outcome', '')[:400]})

  def merge(self, o):
    self.executions += o.executions
    self.nodes += o.nodes
    self.edges += o.edges
    self.max_points = max(self.max_points, o.max_points)
    self.outcomes |= o.outcomes
    for k, v in o.by_dev.items():
      self.by_dev[k] = self.by_dev.get(k, 0) + v
    for v in o.violations:
      if len(self.violations) < 200:
        self.violations.append(v)
    for s in o.samples:
      if len(self.samples) < 4:
        self.samples.append(s)
    self.capped = self.capped or o.capped


_FN_CACHE = {}


def _get_fn(module, func):
  k = (module, func)
  if k not in _FN_CACHE:
    _FN_CACHE[k] = getattr(importlib.import_module(module), func)
  return _FN_CACHE[k]


def _worker_init():
  from . import world
  world.boot()


def _children(res, prefix_len, used, bound):
  pts = res['points']
  out = []
  choices = [p[1] for p in pts]
  for i in range(prefix_len, len(pts)):
    p = pts[i]
    for alt in range(1, len(p[0])):
      c = used + _cost(p, alt)
      if c > bound:
        continue
      out.append((choices[:i] + [alt], [q[0] for q in pts[:i + 1]], c))
  return out


def _run_task(args):
  """Explore the subtree below one prefix.  If `split` > 0, return the children instead of
  recursing (the master re-queues them)."""
  module, func, params, prefix, expect, used, bound, split, max_execs = args
  fn = _get_fn(module, func)
  agg = Agg()
  stack = [(prefix, expect, used)]
  returned = []
  first = True
  while stack:
    pfx, exp, u = stack.pop()
    res = fn(params, pfx, exp)
    res_pts = res['points']
    # determinism guard on the replayed part
    if exp is not None:
      for i in range(min(len(exp), len(res_pts))):
        if tuple(exp[i]) != tuple(res_pts[i][0]):
          raise RuntimeError('replay divergence at point %d' % i)
    if not pfx:
      # determinism guard: the default execution is run twice and must observe the same thing
      res0 = fn(params, [], None)
      if res0.get('outcome') != res.get('outcome') or [p[0] for p in res0['points']] != [p[0] for p in res_pts]:
        raise RuntimeError('the default execution is not deterministic: %r vs %r' % (res.get('outcome'), res0.get('outcome')))
    if res.get('violations'):
      # a failing execution must fail identically when replayed
      res2 = fn(params, [p[1] for p in res_pts], [p[0] for p in res_pts])
      if res2.get('outcome') != res.get('outcome'):
        raise RuntimeError('violating execution is not reproducible: %r vs %r'
                           % (res.get('outcome'), res2.get('outcome')))
    agg.add_exec(res, len(pfx), u)
    kids = _children(res, len(pfx), u, bound)
    if first and split > 0:
      returned = kids
    else:
      stack.extend(reversed(kids))
    first = False
    if max_execs and agg.executions >= max_execs and stack:
      agg.capped = True
      break
  return agg, returned


def explore(module, func, params, bound, workers=None, seed=0, split_levels=1, pool=None,
            max_execs_per_task=0, deadline=None):
  """Explore all executions of `func(params, ...)` with at most `bound` deviations."""
  own = pool is None
  if own:
    pool = make_pool(workers)
  rng = random.Random(seed)
  total = Agg()
  t0 = time.perf_counter()
  try:
    level = [([], None, 0)]
    depth = 0
    while level:
      split = 1 if depth < split_levels else 0
      tasks = [(module, func, params, pfx, exp, u, bound, split, max_execs_per_task)
               for (pfx, exp, u) in level]
      rng.shuffle(tasks)
      nxt = []
      for agg, kids in pool.imap_unordered(_run_task, tasks, chunksize=1):
        total.merge(agg)
        nxt.extend(kids)
        if deadline and time.perf_counter() > deadline:
          total.capped = True
      level = nxt
      depth += 1
      if deadline and time.perf_counter() > deadline and level:
        total.capped = True
        break
  finally:
    if own:
      pool.close()
      pool.join()
  total.wall = time.perf_counter() - t0
  return total


def make_pool(workers=None, maxtasks=200):
  workers = workers or int(os.environ.get('VERIF_WORKERS', '0')) or min(16, os.cpu_count() or 4)
  ctx = mp.get_context('spawn')
  return ctx.Pool(workers, initializer=_worker_init, maxtasksperchild=maxtasks)


def run_single(module, func, params, prefix, expect=None):
  """Replay one execution in this process (used by --replay and by tests)."""
  from . import world
  world.boot()
  return _get_fn(module, func)(params, prefix, expect)


def _call_task(args):
  module, func, a = args
  return _get_fn(module, func)(*a)


def pmap(module, func, arg_list, pool=None, seed=0):
  """Run func(*args) for every args tuple in worker processes (world booted); unordered results."""
  own = pool is None
  if own:
    pool = make_pool()
  tasks = [(module, func, a) for a in arg_list]
  random.Random(seed).shuffle(tasks)
  try:
    return list(pool.imap_unordered(_call_task, tasks, chunksize=1))
  finally:
    if own:
      pool.close()
      pool.join()
